"""K-O oracles on the real StatefulDataLoader (virtual worker processes) for C03, C05, C09, C10, C16, C17.
Each `check_*` takes (ctx, job) and reports through ctx; jobs are JSON-able so every failure replays.
"""
from __future__ import annotations

import gc
import pickle
import random
from typing import Any, Dict, List, Optional, Tuple

import torch
import torch.utils.data as tud

from .. import sdl, vsched
from ..core import Ctx, Failure
from . import c01 as C01

POLICIES = ["random", "adversarial", "starve_worker", "starve_main", "eager_main", "flush_delay"]


def session_for(policy: str, seed: int, W: int, **kw):
    weights = {}
    adversarial = False
    flush = False
    r = random.Random(seed)
    if policy == "adversarial":
        adversarial = True
    elif policy == "starve_worker" and W > 0:
        # worker processes are named Process-<n> in creation order; starve one of them
        weights = {"__starve__": 0.02}
    elif policy == "starve_main":
        weights = {"main": 0.02}
    elif policy == "eager_main":
        weights = {"main": 30.0}
    elif policy == "flush_delay":
        flush = True
    sess = vsched.Session(seed, adversarial=adversarial, weights=weights, flush_delay=flush, **kw)
    sess._starve = policy == "starve_worker"
    sess._starve_pick = r.randrange(max(W, 1))
    return sess


def _apply_starve(sess, s):
    """after workers exist: lower the priority of one worker process"""
    if getattr(sess, "_starve", False):
        procs = [v for v in s.vts if v.is_proc]
        if procs:
            procs[sess._starve_pick % len(procs)].prio = 0.02


def run_stream(cfg, policy, seed, epochs=2, cls=None, torch_seed=1234, with_sd=False):
    """Run `epochs` epochs; returns (stream, out_of_order_seen, sds)."""
    sds = {}
    sess = session_for(policy, seed, cfg["W"])
    with sess as s:
        torch.manual_seed(torch_seed)
        loader = sdl.build(cfg, cls=cls)
        obs: List[Any] = []
        for _ in range(epochs):
            it = iter(loader)
            _apply_starve(sess, s)
            while True:
                if with_sd:
                    s.begin_op()
                    sds[len(obs)] = pickle.dumps(loader.state_dict())
                o = sdl.take(it, s)
                obs.append(o)
                if o[0] != "item":
                    break
            if obs[-1][0] in ("hang",):
                break
        del loader, it
        gc.collect()
        ntmo = s.n_timeouts
    return obs, ntmo, sds


# ------------------------------------------------------------------------------------------------ C03


def check_c03(ctx: Ctx, job):
    cfg, seed = job["cfg"], job["seed"]
    E = 2
    pol = job.get("policy", "random")
    ctx.count("policy:" + pol)
    ctx.count("kind:" + cfg["kind"])
    ctx.count("W:%d" % cfg["W"])
    got, _, _ = run_stream(cfg, pol, seed, E)
    if cfg.get("sampler") in ("shuffle", "shuffle_gen"):
        # every epoch visits each index exactly once
        ctx.case("ko_c03_shuffle", [cfg, pol], cfg["n"] > 1)
        ep: List[int] = []
        for o in got:
            if o[0] == "item":
                ep.extend(o[1] if isinstance(o[1], list) else [o[1]])
            elif o[0] == "stop":
                want = cfg["n"] - (cfg["n"] % cfg["bs"] if cfg.get("drop_last") and cfg["bs"] else 0)
                if sorted(ep) != sorted(set(ep)) or len(ep) != want or any(not (0 <= x < cfg["n"]) for x in ep):
                    ctx.fail("C03:shuffle_not_permutation", job, f"epoch visits {sorted(ep)} (n={cfg['n']}, expected {want} distinct indices)")
                    return
                ep = []
            else:
                ctx.fail("C03:shuffle_run", job, f"unexpected {o}")
                return
        return
    ref, _, _ = run_stream(cfg, "random", seed + 1, E, cls=tud.DataLoader)
    nontriv = cfg["W"] >= 2 and sdl.epoch_len_hint(cfg) >= 3
    ctx.case("ko_c03_vs_torch", [cfg, pol], nontriv)
    if cfg.get("in_order") is False and cfg["W"] > 0:
        # same multiset per epoch, each exactly once
        def epochs_of(st):
            out, cur = [], []
            for o in st:
                if o[0] == "item":
                    cur.append(repr(o[1]))
                else:
                    out.append(sorted(cur) + [o[0]])
                    cur = []
            return out
        if epochs_of(got) != epochs_of(ref):
            ctx.fail("C03:unordered_multiset", job, f"in_order=False epochs differ as multisets: sdl={epochs_of(got)} torch={epochs_of(ref)}")
        return
    if got != ref:
        d = C01._first_diff(got, ref)
        ctx.fail("C03:differs_from_torch", job, f"policy {pol}: observation {d}: StatefulDataLoader {got[d:d+3]} vs torch DataLoader {ref[d:d+3]}")


def gen_c03(ctx: Ctx, n: int):
    jobs = []
    for i in range(n):
        cfg = sdl.gen_cfg(ctx.rng)
        if ctx.rng.random() < 0.5:
            cfg.pop("interval", None)  # default snapshot cadence; otherwise the generated one (the stream must not depend on it)
        if cfg.get("sampler") == "custom_stateful":
            # a sampler that is its own iterator is consumed differently by torch's BatchSampler generator;
            # "the same arguments" is only meaningful for ordinary samplers
            cfg["sampler"] = "custom_plain"
        if cfg["W"] > 0 and ctx.rng.random() < 0.25:
            cfg["in_order"] = False
        if cfg["W"] > 0 and cfg["kind"] in ("map", "map_stateful") and cfg.get("sampler") not in ("shuffle", "shuffle_gen") and cfg.get("in_order") is not False and ctx.rng.random() < 0.4:
            cfg["kind"] = "map_rng"  # items drawn from the worker's torch / random / numpy global RNGs (seeded like torch's workers)
        jobs.append({"cfg": cfg, "seed": ctx.rng.randrange(1 << 30), "policy": ctx.rng.choice(POLICIES)})
    return jobs


def check_timeout(ctx: Ctx, job):
    """`timeout=` + a fetch that is slower than the timeout once: the consumer catches "DataLoader timed out" and calls
    next() again (as with torch's DataLoader).  Apart from the timeouts, the stream is the one of the untimed run: every
    batch once, in order, then StopIteration (C03; C05: a slow worker changes nothing but the waiting)."""
    cfg, seed = job["cfg"], job["seed"]
    base = {k: v for k, v in cfg.items() if k not in ("timeout", "slow_items")}
    ref, _, _ = run_stream(base, "random", seed + 1, 2)
    with vsched.Session(seed) as s:
        torch.manual_seed(1234)
        loader = sdl.build(cfg)
        got: List[Any] = []
        n_tmo = 0
        for _ in range(2):
            it = iter(loader)
            while True:
                o = sdl.take(it, s)
                if o == ("timeout",):
                    n_tmo += 1
                    if n_tmo > 40:
                        got.append(("hang", "more than 40 timeouts"))
                        break
                    continue
                got.append(o)
                if o[0] != "item":
                    break
            if got and got[-1][0] != "stop":
                break
        del loader, it
        gc.collect()
    ctx.case("ko_timeout", cfg, n_tmo > 0)
    ctx.count("timeouts_seen:%d" % min(n_tmo, 3))
    if cfg.get("in_order") is False:
        key = lambda st: sorted(repr(o) for o in st)  # noqa: E731
    else:
        key = lambda st: st  # noqa: E731
    if key(got) != key(ref):
        d = C01._first_diff(got, ref)
        ctx.fail("C03:timeout_retry_changes_stream", job,
                 f"timeout={cfg['timeout']}, fetch of {list(cfg['slow_items'])} slow once; after {n_tmo} caught timeouts the stream differs at observation {d}: {got[d:d+3]} vs untimed run {ref[d:d+3]}")


def gen_timeout(ctx: Ctx, n: int):
    jobs = []
    for i in range(n):
        cfg = sdl.gen_cfg(ctx.rng, kinds=["map", "map_stateful", "iter_plain", "iter_ds_state", "iter_it_state"], allow_shuffle=False)
        cfg.pop("sampler_len", None)
        if cfg["W"] == 0:
            cfg["W"] = ctx.rng.choice([1, 2, 3])
            cfg["pf"] = ctx.rng.choice([1, 2])
            cfg["persistent"] = False
        if sdl.is_iter(cfg):
            cfg["sizes"] = [ctx.rng.randrange(2, 7) for _ in range(cfg["W"])]
            items = [1000 * w + j for w, sz in enumerate(cfg["sizes"]) for j in range(sz)]
        else:
            cfg["n"] = ctx.rng.randrange(4, 13)
            items = list(range(cfg["n"]))
        if cfg.get("sampler") == "custom_stateful":
            cfg["sampler"] = "custom_plain"
        if ctx.rng.random() < 0.2:
            cfg["in_order"] = False
        cfg["timeout"] = 0.3
        cfg["slow_items"] = {str(x): ctx.rng.choice([0.5, 0.8, 1.3]) for x in ctx.rng.sample(items, ctx.rng.choice([1, 1, 2]))}
        jobs.append({"cfg": cfg, "seed": ctx.rng.randrange(1 << 30)})
    return jobs


# ------------------------------------------------------------------------------------------------ C05


def canon_sd(x):
    if isinstance(x, torch.Tensor):
        return ["T", x.tolist()]
    if isinstance(x, dict):
        return {repr(k): canon_sd(v) for k, v in sorted(x.items(), key=lambda kv: repr(kv[0]))}
    if isinstance(x, (list, tuple)):
        return [canon_sd(v) for v in x]
    if isinstance(x, (int, float, str, bool)) or x is None:
        return x
    return repr(x)


def check_c05(ctx: Ctx, job):
    """same configuration under several schedules: identical yields, identical state_dict() content at every
    position, and (for two positions) identical continuation when resumed."""
    cfg, seed = job["cfg"], job["seed"]
    pols = job["policies"]
    base = None
    tm_total = 0
    for i, pol in enumerate(pols):
        st, ntmo, sds = run_stream(cfg, pol, seed + 17 * i, 2, with_sd=True)
        tm_total += ntmo
        c = {p: canon_sd(pickle.loads(b)) for p, b in sds.items()}
        if sdl.is_iter(cfg):
            # the dummy infinite sampler's counters record how many tasks were dispatched, which
            # legitimately depends on when end-of-shard notices arrive; they never influence a resume
            for v in c.values():
                ms = v.get("'_snapshot'", {}).get("'_main_snapshot'", {})
                ms.pop("'_sampler_iter_yielded'", None)
                ms.pop("'_sampler_iter_state'", None)
        if base is None:
            base = (st, c, sds, pol)
            continue
        if st != base[0]:
            d = C01._first_diff(st, base[0])
            ctx.fail("C05:yields_depend_on_schedule", job, f"policy {pol} vs {base[3]}: observation {d}: {st[d:d+3]} vs {base[0][d:d+3]}")
            return
        for p in sorted(c):
            if c[p] != base[1].get(p):
                ctx.fail("C05:checkpoint_depends_on_schedule", job,
                         f"state_dict() at position {p} differs between schedule {pol} and {base[3]}: {_diff_sd(c[p], base[1].get(p))}")
                return
    ctx.case("ko_c05", [cfg, pols], cfg["W"] >= 2)
    ctx.count("W:%d" % cfg["W"])
    ctx.count("kind:" + cfg["kind"])
    # continuation from a checkpoint of the LAST schedule, resumed under the first
    st, c, sds, _ = base
    r = random.Random(seed)
    for p in r.sample(sorted(sds), min(2, len(sds))):
        want = st[p:]
        got = C01.resumed_run(cfg, sds[p], seed + 99 + p, 55, len(want), adversarial=True)
        if got != want:
            d = C01._first_diff(got, want)
            ctx.fail("C05:continuation", job, f"resume at {p}: +{d}: got {got[d:d+3]} want {want[d:d+3]}")
            return


def _diff_sd(a, b, path=""):
    if type(a) != type(b):
        return f"{path}: {a!r} vs {b!r}"[:300]
    if isinstance(a, dict):
        for k in sorted(set(a) | set(b)):
            if a.get(k) != b.get(k):
                return _diff_sd(a.get(k), b.get(k), path + "/" + k)
    return f"{path}: {a!r} vs {b!r}"[:300]


def gen_c05(ctx: Ctx, n: int):
    jobs = []
    for i in range(n):
        cfg = sdl.gen_cfg(ctx.rng, allow_shuffle=True)
        if cfg["W"] == 0:
            cfg["W"] = ctx.rng.choice([2, 3])
            cfg["pf"] = ctx.rng.choice([1, 2, 3])
            cfg["persistent"] = False
            if sdl.is_iter(cfg):
                cfg["sizes"] = (cfg["sizes"] * 4)[: cfg["W"]]
        if sdl.is_iter(cfg) and ctx.rng.random() < 0.3:
            cfg["kind"] = "iter_inplace"
        pols = ["random"] + ctx.rng.sample(POLICIES[1:], 3)
        jobs.append({"cfg": cfg, "seed": ctx.rng.randrange(1 << 30), "policies": pols})
    return jobs


# ------------------------------------------------------------------------------------------------ C10


def expected_with_failures(cfg) -> Optional[List[Any]]:
    """One epoch of the reference observation sequence of a catch-and-continue consumer, derived from the
    documented semantics (not from the implementation). None if the configuration has no crisp reference."""
    fail = set(cfg.get("fail", ()))
    cfail = set(cfg.get("collate_fail") or ())
    bs = cfg["bs"]
    dl = cfg.get("drop_last", False)

    def batches_of_items(items):
        """auto-collation over an item stream where producing an item in `fail` raises: the batch being
        assembled is lost and reported as error; the stream continues after the failing item."""
        out, cur = [], []
        for x in items:
            if x in fail:
                out.append(("error", "ValueError"))
                cur = []
                continue
            cur.append(x)
            if len(cur) == bs:
                out.append(("error", "KeyError") if cfail & set(cur) else ("item", cur))
                cur = []
        if cur and not dl:
            out.append(("error", "KeyError") if cfail & set(cur) else ("item", cur))
        return out

    if sdl.is_iter(cfg):
        if cfg["kind"] != "iter_it_state":
            return None  # generator-based datasets die on the first exception (Python semantics)
        per_worker = []
        sfail = set(cfg.get("state_fail") or ())
        for w, sz in enumerate(cfg["sizes"]):
            items = [1000 * w + i for i in range(sz)]
            if bs is None:
                per_worker.append([("error", "ValueError") if x in fail else (("error", "KeyError") if x in cfail else ("item", x)) for x in items])
            else:
                bl = batches_of_items(items)
                if sfail:
                    # the worker's state_dict() is taken right after each batch (snapshot interval 1, workers > 0):
                    # a raising state_dict() is an error of the dataset at that batch
                    pos = 0
                    for bi, b in enumerate(bl):
                        if b[0] == "item":
                            pos += len(b[1])
                            if (1000 * w + pos) in sfail:
                                bl[bi] = ("error", "ValueError")
                per_worker.append(bl)
        # round robin with drop-out
        out, idx = [], [0] * len(per_worker)
        alive = [True] * len(per_worker)
        while any(alive):
            for w in range(len(per_worker)):
                if not alive[w]:
                    continue
                if idx[w] < len(per_worker[w]):
                    out.append(per_worker[w][idx[w]])
                    idx[w] += 1
                else:
                    alive[w] = False
        return out + [("stop",)]
    # map-style, sequential / fixed order
    n = cfg["n"]
    order = list(range(n)) if cfg.get("sampler", "seq") in ("seq", "batch_sampler") else sdl._order(cfg)
    if bs is None:
        return [("error", "ValueError") if x in fail else (("error", "KeyError") if x in cfail else ("item", x)) for x in order] + [("stop",)]
    out = []
    for i in range(0, len(order), bs):
        b = order[i:i + bs]
        if len(b) < bs and dl:
            break
        if fail & set(b):
            out.append(("error", "ValueError"))
        elif cfail & set(b):
            out.append(("error", "KeyError"))
        else:
            out.append(("item", b))
    return out + [("stop",)]


def check_c10(ctx: Ctx, job):
    cfg, seed, pol = job["cfg"], job["seed"], job.get("policy", "random")
    want1 = expected_with_failures(cfg)
    if want1 is None:
        return
    if cfg.get("init_fail"):
        sess = session_for(pol, seed, cfg["W"])
        with sess as s:
            pre = None
            if job.get("preload"):
                # a start-up failure AFTER a state was loaded must surface the same way
                clean = {k: v for k, v in cfg.items() if k != "init_fail"}
                l0 = sdl.build(clean)
                it0 = iter(l0)
                sdl.take(it0, s)
                s.begin_op()
                pre = pickle.loads(pickle.dumps(l0.state_dict()))
                del l0, it0
                gc.collect()
            loader = sdl.build(cfg)
            if pre is not None:
                loader.load_state_dict(pre)
            first = None
            if job.get("sd_first"):
                # state_dict() before the first iteration starts the workers too: the start-up failure must
                # surface there, and again (same type) at the following iter()
                s.begin_op()
                try:
                    loader.state_dict()
                    first = ("no-error-at-state_dict",)
                except RuntimeError:
                    first = ("error", "RuntimeError")
                except Exception as e:
                    first = ("error", type(e).__name__)
            s.begin_op()
            try:
                it = iter(loader)
                o = sdl.take(it, s)
                outcome = ("no-error-at-iter", o)
            except RuntimeError as e:
                outcome = ("error", "RuntimeError")
            except vsched.VHang as e:
                outcome = ("hang", str(e))
            except Exception as e:
                outcome = ("error", type(e).__name__)
            del loader
            gc.collect()
        ctx.case("ko_c10_init", [cfg, pol], True)
        if first is not None and first != ("error", "RuntimeError"):
            ctx.fail("C10:init_error", job, f"worker_init_fn raising RuntimeError in worker(s) {cfg['init_fail']}: state_dict() before iteration observed {first}")
        elif outcome != ("error", "RuntimeError"):
            ctx.fail("C10:init_error", job, f"worker_init_fn raising RuntimeError in worker(s) {cfg['init_fail']}: consumer observed {outcome}" + (f" (after state_dict() raised {first})" if first else ""))
        return
    want = want1 + want1  # two epochs
    sess = session_for(pol, seed, cfg["W"])
    with sess as s:
        torch.manual_seed(1)
        loader = sdl.build(cfg)
        got: List[Any] = []
        for _ in range(2):
            try:
                s.begin_op()
                it = iter(loader)
            except Exception as e:
                got.append(("error-at-iter", type(e).__name__))
                break
            _apply_starve(sess, s)
            while len(got) < len(want) + 3:
                o = sdl.take(it, s)
                got.append(o)
                if o[0] in ("stop", "hang"):
                    break
            if got and got[-1][0] == "hang":
                break
        del loader
        gc.collect()
    nerr = sum(1 for o in want1 if o[0] == "error")
    if cfg.get("state_fail"):
        ctx.count("state_dict_raises")
    ctx.case("ko_c10", [cfg, pol], nerr > 0 and cfg["W"] > 0)
    ctx.count("errors_in_epoch:%d" % min(nerr, 3))
    ctx.count("W:%d" % cfg["W"])
    ctx.count("interval:" + str(cfg.get("interval")))
    if cfg.get("in_order") is False and cfg["W"] > 0:
        # out-of-order delivery: per epoch the same multiset of batches and errors, each exactly once, then StopIteration
        def epochs_of(st):
            out, cur = [], []
            for o in st:
                if o[0] in ("stop", "hang", "error-at-iter"):
                    out.append(sorted(cur) + [repr(o[0])])
                    cur = []
                else:
                    cur.append(repr(o))
            if cur:
                out.append(sorted(cur) + ["(no end)"])
            return out
        if epochs_of(got) != epochs_of(want):
            ctx.fail("C10:unordered_errors", job,
                     f"in_order=False, policy {pol}: epochs as multisets {epochs_of(got)} but the failing items "
                     f"{sorted(cfg.get('fail', []))}/{sorted(cfg.get('collate_fail') or [])} imply {epochs_of(want)}")
        return
    if got != want:
        d = C01._first_diff(got, want)
        ctx.fail("C10:error_position", job,
                 f"policy {pol}: observation {d}: consumer saw {got[d:d+3]} but the failing items {sorted(cfg.get('fail', []))}/{sorted(cfg.get('collate_fail') or [])} imply {want[d:d+3]}")


def check_c10_epoch_start(ctx: Ctx, job):
    """The dataset's __iter__ raises at the start of a LATER epoch (persistent workers keep the dataset object, so the
    failure is transient): that epoch's iter() raises the dataset's exception type, and the consumer can carry on - every
    other epoch is delivered completely."""
    cfg, seed, E = job["cfg"], job["seed"], job["epochs"]
    clean = dict(cfg)
    clean["start_fail"] = {}
    ref, _, _ = run_stream(clean, "random", seed + 1, 1)
    failing = {e for calls in cfg["start_fail"].values() for e in calls}
    want: List[Any] = []
    for e in range(1, E + 1):
        want += [("error-at-iter", "ValueError")] if e in failing else list(ref)
    got: List[Any] = []
    with session_for(job.get("policy", "random"), seed, cfg["W"]) as s:
        torch.manual_seed(1)
        loader = sdl.build(cfg)
        for e in range(1, E + 1):
            try:
                s.begin_op()
                it = iter(loader)
            except vsched.VHang as ex:
                got.append(("hang", str(ex)))
                break
            except Exception as ex:  # noqa: BLE001
                got.append(("error-at-iter", type(ex).__name__))
                continue
            while len(got) < len(want) + 3:
                o = sdl.take(it, s)
                got.append(o)
                if o[0] in ("stop", "hang"):
                    break
            if got and got[-1][0] == "hang":
                break
        del loader
        gc.collect()
    ctx.case("ko_c10_epoch_start", cfg, cfg["W"] > 0)
    ctx.count("epoch_start_fail:W=%d" % cfg["W"])
    if got != want:
        d = C01._first_diff(got, want)
        ctx.fail("C10:epoch_start_error", job,
                 f"__iter__ of the dataset raises ValueError at the start of epoch(s) {sorted(failing)} (persistent_workers={cfg.get('persistent')}): "
                 f"observation {d}: consumer saw {got[d:d+3]} but expected {want[d:d+3]} (every other epoch complete)")


def gen_c10_epoch_start(ctx: Ctx, n: int):
    jobs = []
    for i in range(n):
        W = ctx.rng.choice([0, 1, 2, 3])
        cfg: Dict[str, Any] = {"kind": "iter_start_fail", "W": W, "bs": ctx.rng.choice([None, 1, 2, 3]), "drop_last": False,
                               "interval": ctx.rng.choice([1, 2, None]), "sizes": [ctx.rng.randrange(1, 6) for _ in range(max(W, 1))]}
        if W > 0:
            cfg["pf"] = ctx.rng.choice([1, 2])
            cfg["persistent"] = True
        E = ctx.rng.choice([3, 4])
        fails: Dict[str, List[int]] = {}
        for e in ctx.rng.sample(range(2, E + 1), ctx.rng.choice([1, 1, 2]) if E > 3 else 1):
            for w in ctx.rng.sample(range(max(W, 1)), ctx.rng.randrange(1, max(W, 1) + 1)):
                fails.setdefault(str(w), []).append(e)
        cfg["start_fail"] = fails
        jobs.append({"cfg": cfg, "seed": ctx.rng.randrange(1 << 30), "epochs": E, "policy": ctx.rng.choice(POLICIES)})
    return jobs


def gen_c10(ctx: Ctx, n: int):
    jobs = []
    for i in range(n):
        cfg = sdl.gen_cfg(ctx.rng, kinds=["map", "map_stateful", "iter_it_state"], allow_shuffle=False)
        if cfg.get("sampler") in ("batch_sampler",):
            cfg["sampler"] = "seq"
        items = ([1000 * w + j for w, sz in enumerate(cfg["sizes"]) for j in range(sz)] if sdl.is_iter(cfg) else list(range(cfg["n"])))
        r = ctx.rng.random()
        k = 0 if not items else ctx.rng.choice([1, 1, 2, 3])
        if i % 6 == 5:
            # mode: the dataset iterator's state_dict() raises right after a full, non-final batch
            cfg["kind"] = "iter_it_state"
            cfg["W"] = max(cfg["W"], ctx.rng.choice([1, 2, 3]))
            cfg.setdefault("pf", 2)
            cfg.setdefault("persistent", False)
            cfg["bs"] = cfg["bs"] or 2
            cfg["interval"] = 1
            cfg.pop("n", None)
            cfg.pop("sampler", None)
            cfg["sizes"] = [ctx.rng.choice([3, 4, 5, 6, 7]) for _ in range(cfg["W"])]
            cands = [1000 * w + kk * cfg["bs"] for w, sz in enumerate(cfg["sizes"]) for kk in range(1, sz // cfg["bs"] + 1) if kk * cfg["bs"] < sz]
            if cands:
                cfg["state_fail"] = sorted(ctx.rng.sample(cands, min(len(cands), ctx.rng.choice([1, 1, 2]))))
            r = 2.0
        if r > 1.0:
            pass
        elif r < 0.7:
            cfg["fail"] = sorted(ctx.rng.sample(items, min(k, len(items))))
        elif r < 0.9:
            cfg["collate_fail"] = sorted(ctx.rng.sample(items, min(k, len(items))))
        elif cfg["W"] > 0:
            cfg["init_fail"] = [ctx.rng.randrange(cfg["W"])]
        if cfg["W"] > 0 and not sdl.is_iter(cfg) and (cfg.get("fail") or cfg.get("collate_fail")) and ctx.rng.random() < 0.3:
            cfg["in_order"] = False  # errors overtaking / being overtaken by other batches
        job = {"cfg": cfg, "seed": ctx.rng.randrange(1 << 30), "policy": ctx.rng.choice(POLICIES)}
        if cfg.get("init_fail"):
            job["preload"] = ctx.rng.random() < 0.5
            job["sd_first"] = (not job["preload"]) and ctx.rng.random() < 0.6
        jobs.append(job)
    return jobs


def k_c10_interval(f: Failure) -> bool:
    c = f.inp.get("cfg", {})
    return (f.kind == "C10:error_position" and c.get("W", 0) > 0 and c.get("interval") not in (0, 1, None)
            and bool(c.get("fail") or c.get("collate_fail")))


# ------------------------------------------------------------------------------------------------ C09


def check_c09(ctx: Ctx, job):
    """kill worker `victim` at its `at`-th switch point; consumer iterates one epoch."""
    cfg, seed, victim, at = job["cfg"], job["seed"], job["victim"], job["at"]
    warm = 1 if job.get("second_epoch") else 0  # persistent workers: an uninterrupted first epoch, the kill happens in / before the second
    ref_all, _, _ = run_stream(cfg, "random", seed + 5, 1 + warm)
    if warm:
        cut = next(i for i, o in enumerate(ref_all) if o[0] != "item") + 1
        ref0, ref = ref_all[:cut], ref_all[cut:]
        if ref0[-1][0] != "stop" or not ref:
            ctx.count("ko_c09:second_epoch_skipped")
            return
    else:
        ref0, ref = [], ref_all
    state = {"n": 0, "killed_at_clock": None, "phase": None, "armed": not warm}
    pre_sd = {}
    with vsched.Session(seed, adversarial=job.get("adversarial", False)) as s:
        def plan(sch, vt):
            if not vt.is_proc or not state["armed"]:
                return False
            procs = [v for v in sch.vts if v.is_proc]
            if procs.index(vt) != victim % max(len(procs), 1):
                return False
            state["n"] += 1
            if state["n"] == at:
                state["killed_at_clock"] = sch.clock
                return True if job.get("exit_status") is None else int(job["exit_status"])
            return False

        s.kill_plan = plan
        torch.manual_seed(1234)
        loader = sdl.build(cfg)
        got: List[Any] = []
        lat = None
        try:
            if warm:
                first = sdl.run_epochs(loader, 1, s)[0]
                if first != ref0 and cfg.get("in_order") is not False:
                    ctx.fail("C09:first_epoch_differs", job, f"uninterrupted first epoch differs between two runs: {first[:3]} vs {ref0[:3]}")
                    return
                state["armed"] = True
            s.begin_op()
            it = iter(loader)
            while len(got) < len(ref) + 3:
                if state["killed_at_clock"] is None and len(got) == job.get("sd_at", -1):
                    s.begin_op()
                    pre_sd["sd"] = pickle.dumps(loader.state_dict())
                    pre_sd["p"] = len(got)
                t0 = s.clock
                o = sdl.take(it, s)
                got.append(o)
                if o[0] != "item":
                    lat = s.clock - t0
                    break
        except vsched.VHang as e:
            got.append(("hang", str(e)))
        except Exception as e:
            got.append(("error-at-iter", type(e).__name__))
        killed = state["killed_at_clock"] is not None
        del loader
        gc.collect()
    ctx.case("ko_c09", [cfg, victim, at], killed)
    ctx.count("killed:" + str(killed))
    last = got[-1] if got else ("none",)
    items = [o for o in got if o[0] == "item"]
    # never wrong data: delivered batches are a prefix of the reference
    if items != ref[:len(items)] and not (cfg.get("in_order") is False):
        d = C01._first_diff(items, ref)
        ctx.fail("C09:wrong_data", job, f"after killing worker {victim} at its switch point {at}: observation {d} is {items[d:d+2]} but the uninterrupted run has {ref[d:d+2]}")
        return
    if last[0] == "hang":
        ctx.fail("C09:hang", job, f"worker {victim} killed at its switch point {at}: next() never returned ({last[1]}) after {len(items)} batches")
        return
    if last[0] == "stop" and len(items) < len(ref) - 1:
        ctx.fail("C09:early_stop", job, f"worker {victim} killed at switch point {at}: epoch ended cleanly after {len(items)} of {len(ref)-1} batches")
        return
    if last[0] in ("error", "error-at-iter") and killed and lat is not None and lat > 60.0:
        ctx.fail("C09:slow_detection", job, f"death reported only after {lat} virtual seconds")
        return
    if killed and "sd" in pre_sd and not warm:
        want = ref[pre_sd["p"]:]
        got2 = C01.resumed_run(cfg, pre_sd["sd"], seed + 3, 9, len(want))
        if got2 != want:
            d = C01._first_diff(got2, want)
            ctx.fail("C09:checkpoint_before_death", job, f"checkpoint taken at {pre_sd['p']} before the death resumes wrongly at +{d}: {got2[d:d+3]} vs {want[d:d+3]}")


def gen_c09(ctx: Ctx, n: int):
    jobs = []
    for i in range(n):
        cfg = sdl.gen_cfg(ctx.rng, allow_shuffle=False)
        if cfg["W"] == 0:
            cfg["W"] = ctx.rng.choice([1, 2, 3])
            cfg["pf"] = ctx.rng.choice([1, 2])
            if sdl.is_iter(cfg):
                cfg["sizes"] = (cfg["sizes"] * 4)[: cfg["W"]]
        second = ctx.rng.random() < 0.3
        cfg["persistent"] = second
        jobs.append({"cfg": cfg, "seed": ctx.rng.randrange(1 << 30), "victim": ctx.rng.randrange(cfg["W"]),
                     "at": ctx.rng.choice([1, 2, 3, 4, 5, 6, 8, 10, 13, 17, 22, 30] if not second else [1, 1, 2, 2, 3, 4, 5, 6, 8, 10, 13]),
                     "sd_at": ctx.rng.choice([0, 1, 2, 3]), "adversarial": ctx.rng.random() < 0.3, "second_epoch": second,
                     # SIGKILL, or the worker ends itself (os._exit(n) in user code); status 0 is not reported by SIGCHLD
                     "exit_status": ctx.rng.choice([None, None, 0, 0, 1, 3])})
    return jobs


def check_c09_real(ctx: Ctx, job):
    """REAL worker processes (thorough tier): the dataset SIGKILLs its own worker process while producing a
    chosen item; the consumer must see a prefix of the reference and then RuntimeError within a wall-clock bound."""
    import time as _t
    cfg = dict(job["cfg"])
    cfg["real_mp"] = True
    ref_cfg = {k: v for k, v in cfg.items() if k != "kill_items"}
    with vsched.Session(job["seed"]) as s:
        loader = sdl.build(ref_cfg)
        ref = sdl.run_epochs(loader, 1, None)[0]
        del loader
        gc.collect()
        loader = sdl.build(cfg)
        got = []
        t0 = _t.time()
        it = iter(loader)
        while len(got) < len(ref) + 2:
            t1 = _t.time()
            o = sdl.take(it, None)
            got.append(o)
            if o[0] != "item":
                lat = _t.time() - t1
                break
            if _t.time() - t0 > 60:
                got.append(("hang", "wall clock"))
                break
        del loader, it
        gc.collect()
    ctx.case("ko_c09_real", cfg, True)
    items = [o for o in got if o[0] == "item"]
    if items != ref[:len(items)]:
        ctx.fail("C09:wrong_data_real", job, f"real processes: delivered {items[:4]} is not a prefix of {ref[:4]}")
    elif got[-1][0] == "hang":
        ctx.fail("C09:hang_real", job, "real processes: next() did not return within 60 s after the worker killed itself")
    elif got[-1][0] == "stop" and len(items) < len(ref) - 1:
        ctx.fail("C09:early_stop_real", job, f"real processes: clean end of epoch after {len(items)} of {len(ref)-1} batches")
    elif got[-1][0] == "error" and lat > 20:
        ctx.fail("C09:slow_detection_real", job, f"real processes: death reported after {lat:.1f} s")


def gen_c09_real(ctx: Ctx, n: int):
    jobs = []
    for i in range(n):
        cfg = sdl.gen_cfg(ctx.rng, kinds=["map", "iter_ds_state", "iter_it_state"], allow_shuffle=False)
        cfg["W"] = ctx.rng.choice([1, 2, 3])
        cfg["pf"] = ctx.rng.choice([1, 2])
        cfg["persistent"] = False
        if sdl.is_iter(cfg):
            cfg["sizes"] = [ctx.rng.randrange(2, 7) for _ in range(cfg["W"])]
            items = [1000 * w + j for w, sz in enumerate(cfg["sizes"]) for j in range(sz)]
        else:
            cfg["n"] = ctx.rng.randrange(4, 12)
            cfg["sampler"] = "seq"
            items = list(range(cfg["n"]))
        cfg["kill_items"] = [ctx.rng.choice(items)]
        jobs.append({"cfg": cfg, "seed": ctx.rng.randrange(1 << 30)})
    return jobs


# ------------------------------------------------------------------------------------------------ C16


def check_c16(ctx: Ctx, job):
    cfg, seed, Wl, k = job["cfg"], job["seed"], job["Wl"], job["k"]
    cfg_l = dict(cfg)
    cfg_l["W"] = Wl
    if sdl.is_iter(cfg):
        cfg_l["sizes"] = (list(cfg["sizes"]) * 5)[: max(Wl, 1)]
    if Wl == 0:
        cfg_l.pop("pf", None)
        cfg_l.pop("persistent", None)
    else:
        cfg_l.setdefault("pf", 2)
    with vsched.Session(seed) as s:
        saver = sdl.build(cfg)
        it = iter(saver)
        n = 0
        while n < k:
            o = sdl.take(it, s)
            if o[0] != "item":
                break
            n += 1
        s.begin_op()
        sd = pickle.loads(pickle.dumps(saver.state_dict()))
        del saver, it
        gc.collect()
        s.idle_until_quiet(30)
        loader = sdl.build(cfg_l)
        # 1. an empty dict is a no-op (also right after a state_dict() on the not yet iterated loader)
        if job.get("sd_before_empty") and cfg_l.get("sampler") != "custom_stateful":
            # (not with a user sampler that is its own iterator and keeps its position across iter() calls: the iterator
            # pre-created by state_dict() has already drawn from it, so "a fresh epoch" of that sampler is its remainder -
            # that is the sampler's semantics, not the loader's)
            s.begin_op()
            loader.state_dict()
        loader.load_state_dict({})
        try:
            fresh = sdl.run_epochs(loader, 1, s)
        except Exception as e:
            fresh = [[("error-at-iter", type(e).__name__)]]
        del loader
        gc.collect()
        s.idle_until_quiet(30)
        loader = sdl.build(cfg_l)
        ref = sdl.run_epochs(loader, 1, s)
        del loader
        gc.collect()
        s.idle_until_quiet(30)
        if fresh != ref:
            ctx.fail("C16:empty_dict_not_noop", job, f"load_state_dict({{}}) then one epoch: {fresh[0][:3]} vs fresh loader {ref[0][:3]}")
            return
        # 2. the mismatching state must be rejected with an error, yielding nothing
        loader = sdl.build(cfg_l)
        if job.get("mid_epoch"):
            # the loading loader is itself in the middle of an epoch (its workers are up) when the checkpoint is loaded
            s.begin_op()
            try:
                it = iter(loader)
                sdl.take(it, s)
            except Exception:
                pass
        loader.load_state_dict(sd)
        it = None
        gc.collect()
        outcome = None
        s.begin_op()
        try:
            it = iter(loader)
            o = sdl.take(it, s)
            outcome = ("yielded", o)
        except vsched.VHang as e:
            outcome = ("hang", str(e))
        except Exception as e:
            outcome = ("rejected", type(e).__name__)
        it = None
        gc.collect()
        # a second attempt without a new load must not silently start from somewhere else either
        outcome2 = None
        if outcome[0] == "rejected":
            s.begin_op()
            try:
                it = iter(loader)
                outcome2 = ("yielded", sdl.take(it, s))
            except vsched.VHang as e:
                outcome2 = ("hang", str(e))
            except Exception as e:
                outcome2 = ("rejected", type(e).__name__)
            it = None
            gc.collect()
        quiet = s.idle_until_quiet(60)
        left = [v.name for v in s.alive()]
        # 3. usable afterwards: load a valid state and iterate
        valid = None
        try:
            l2 = sdl.build(cfg_l)
            it2 = iter(l2)
            sdl.take(it2, s)
            s.begin_op()
            sd_ok = pickle.loads(pickle.dumps(l2.state_dict()))
            rest_want = []
            while True:
                o = sdl.take(it2, s)
                rest_want.append(o)
                if o[0] != "item":
                    break
            del l2, it2
            gc.collect()
            loader.load_state_dict(sd_ok)
            it = iter(loader)
            rest = []
            while True:
                o = sdl.take(it, s)
                rest.append(o)
                if o[0] != "item":
                    break
            valid = rest == rest_want
            detail = f"{rest[:3]} vs {rest_want[:3]}"
        except Exception as e:
            valid = False
            detail = f"{type(e).__name__}: {e}"
        del loader
        it = None
        gc.collect()
    ctx.case("ko_c16", [cfg, Wl, k], True)
    ctx.count("pair:%d->%d" % (cfg["W"], Wl))
    if outcome[0] != "rejected":
        ctx.fail("C16:not_rejected", job, f"state saved with num_workers={cfg['W']} after {n} batches, loaded with num_workers={Wl}: {outcome}")
        return
    if outcome2 is not None and outcome2[0] != "rejected":
        ctx.fail("C16:retry_not_rejected", job, f"the mismatching state (num_workers {cfg['W']} -> {Wl}) was rejected once, but the next iter() without a new load gave {outcome2}")
        return
    if not quiet or left:
        ctx.fail("C16:workers_left_behind", job, f"after the rejected load {left} are still alive")
        return
    if not valid:
        ctx.fail("C16:not_usable_after_reject", job, f"loading a valid state after the rejected one: {detail}")


def gen_c16(ctx: Ctx, n: int):
    jobs = []
    pairs = [(a, b) for a in range(5) for b in range(5) if a != b]
    for i in range(n):
        Ws, Wl = pairs[i % len(pairs)]
        cfg = sdl.gen_cfg(ctx.rng, allow_shuffle=False)
        cfg["W"] = Ws
        if Ws > 0:
            cfg.setdefault("pf", 2)
            cfg["persistent"] = ctx.rng.random() < 0.3
        else:
            cfg.pop("pf", None)
            cfg.pop("persistent", None)
        if sdl.is_iter(cfg):
            cfg["sizes"] = (list(cfg["sizes"]) * 5)[: max(Ws, 1)]
        jobs.append({"cfg": cfg, "seed": ctx.rng.randrange(1 << 30), "Wl": Wl, "k": ctx.rng.choice([0, 1, 2, 3, 5]),
                     "sd_before_empty": ctx.rng.random() < 0.5, "mid_epoch": ctx.rng.random() < 0.4})
    return jobs


# ------------------------------------------------------------------------------------------------ C17 (loader part)


def check_c17(ctx: Ctx, job):
    """histories of partial/complete epochs, abandon+collect, new epoch, load, error; worker processes of
    a non-persistent loader must all exit within bounded virtual time after each step; persistent workers
    are reused (same W processes)."""
    cfg, seed, hist = job["cfg"], job["seed"], job["history"]
    W = cfg["W"]
    with vsched.Session(seed, adversarial=job.get("adversarial", False)) as s:
        loader = sdl.build(cfg)
        it = None
        sd = None
        procs_seen = 0
        for step_i, op in enumerate(hist):
            s.begin_op()
            try:
                if op[0] == "epoch":
                    it = iter(loader)
                    while sdl.take(it, s)[0] == "item":
                        pass
                elif op[0] == "partial":
                    it = iter(loader)
                    for _ in range(op[1]):
                        if sdl.take(it, s)[0] != "item":
                            break
                    s.begin_op()
                    sd = pickle.loads(pickle.dumps(loader.state_dict()))
                elif op[0] == "abandon":
                    it = None
                    if not cfg.get("persistent"):
                        loader._iterator = None
                    gc.collect()
                elif op[0] == "load" and sd is not None:
                    loader.load_state_dict(sd)
                    it = None
                    gc.collect()
                elif op[0] == "new_loader":
                    it = None
                    loader = None
                    gc.collect()
                    loader = sdl.build(cfg)
                elif op[0] == "start_fail":
                    # a new loader whose op[1]-th worker process cannot be started: iter() raises, and the workers that
                    # were already up must not be left behind
                    it = None
                    loader = None
                    gc.collect()
                    loader = sdl.build(cfg, ctx=vsched.VCtx(fail_start_at=op[1]))
                    try:
                        it = iter(loader)
                        ctx.fail("C17:start_failure_swallowed", job, f"step {step_i} {op}: Process.start() raised but iter() returned an iterator")
                        return
                    except OSError:
                        it = None
                    loader = None
                    gc.collect()
            except vsched.VHang as e:
                ctx.fail("C17:hang", job, f"step {step_i} {op}: {e}")
                return
            except Exception as e:
                pass  # errors are C10's business
            # after the step: let background work drain with the consumer idle
            holder_alive = it is not None or (loader is not None and getattr(loader, "_iterator", None) is not None)
            s.idle_until_quiet(40) if not holder_alive else s.switch(lambda: False, 12.0)
            alive = [v for v in s.alive() if v.is_proc]
            if cfg.get("persistent"):
                if len(alive) > W:
                    ctx.fail("C17:persistent_duplicated", job, f"after step {step_i} {op}: {len(alive)} live worker processes for num_workers={W}")
                    return
            else:
                finished = op[0] in ("epoch", "abandon", "load", "new_loader", "start_fail")
                if finished and alive and op[0] != "epoch":
                    ctx.fail("C17:workers_not_released", job, f"after step {step_i} {op}: still alive {[v.name for v in alive]}")
                    return
                if op[0] == "epoch" and alive:
                    ctx.fail("C17:workers_not_released", job, f"after an exhausted epoch (step {step_i}): still alive {[v.name for v in alive]}")
                    return
                if len(alive) > W:
                    ctx.fail("C17:accumulation", job, f"after step {step_i} {op}: {len(alive)} live worker processes for num_workers={W}")
                    return
        del loader
        it = None
        gc.collect()
        s.idle_until_quiet(60)
        left = [v.name for v in s.alive() if v.is_proc]
    ctx.case("ko_c17_sdl", [cfg, hist], len(hist) >= 3)
    if left:
        ctx.fail("C17:workers_not_released", job, f"after the loader was dropped: still alive {left}")


def gen_c17(ctx: Ctx, n: int):
    jobs = []
    for i in range(n):
        cfg = sdl.gen_cfg(ctx.rng, allow_shuffle=False)
        if cfg["W"] == 0:
            cfg["W"] = ctx.rng.choice([1, 2, 3])
            cfg["pf"] = 2
            cfg["persistent"] = ctx.rng.random() < 0.4
            if sdl.is_iter(cfg):
                cfg["sizes"] = (cfg["sizes"] * 4)[: cfg["W"]]
        hist = []
        for _ in range(ctx.rng.randrange(2, 7)):
            r = ctx.rng.random()
            if r < 0.3:
                hist.append(["epoch"])
            elif r < 0.6:
                hist.append(["partial", ctx.rng.randrange(0, 4)])
            elif r < 0.75:
                hist.append(["abandon"])
            elif r < 0.9:
                hist.append(["load"])
            else:
                hist.append(["new_loader"])
        if cfg["W"] >= 2 and ctx.rng.random() < 0.25:
            # the history ends with a loader one of whose worker processes cannot be started (not the first one)
            hist.append(["start_fail", ctx.rng.randrange(1, cfg["W"])])
        jobs.append({"cfg": cfg, "seed": ctx.rng.randrange(1 << 30), "history": hist, "adversarial": ctx.rng.random() < 0.3})
    return jobs
