"""Parts contributed by the ParallelMapper protocol model (harness/props/pm_trace.py, lean Model/PM.lean)."""
from __future__ import annotations

from ..core import Ctx
from . import _compose, pm_trace

LEAN_MODULES = list(pm_trace.LEAN_MODULES)


class _Only:
    """Ctx proxy recording only the failures of one property (pm_trace's oracle kinds are prefixed `Cxx:`)."""

    def __init__(self, ctx, prop):
        object.__setattr__(self, "_c", ctx)
        object.__setattr__(self, "_p", prop)

    def __getattr__(self, k):
        return getattr(self._c, k)

    def __setattr__(self, k, v):
        setattr(self._c, k, v)

    def fail(self, kind, inp, what):
        if kind.startswith(self._p + ":"):
            self._c.fail(kind, inp, what)

    def pmap(self, fn, items, nproc=None):
        return self._c.pmap(_OnlyFn(fn, self._p), items, nproc)


class _OnlyFn:
    def __init__(self, fn, prop):
        self.fn, self.prop = fn, prop

    def __call__(self, sub, item):
        return self.fn(_Only(sub, self.prop), item)


def _replay(ctx, payload):
    sub = Ctx(ctx.prop, ctx.tier, ctx.seed)
    pm_trace.replay(sub, payload.get("input", payload))
    if sub.failures:
        return False, sub.failures[0].what
    if sub.divergences:
        return False, sub.divergences[0].detail
    return True, "holds on this input"


def parts(prop: str, kt: bool = True):
    ths = pm_trace.THEOREMS_BY_PROPERTY.get(prop, [])
    out = []
    if kt:
        out.append(_compose.Part("pm_kt", lambda ctx: pm_trace.run_kt(ctx, 300, 6000), _replay, theorems=ths, modules=LEAN_MODULES))
    known = pm_trace.KNOWN if prop == "C11" else (getattr(pm_trace, "KNOWN_C12", None) if prop == "C12" else None)
    out.append(_compose.Part("pm_ko", lambda ctx: pm_trace.run_ko(_Only(ctx, prop), 0.6), _replay, theorems=ths, modules=LEAN_MODULES, known=known))
    try:
        from . import pmgen_parts
        out += pmgen_parts.parts(prop)
    except ImportError:
        pass
    return out
