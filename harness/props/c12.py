"""C12 - nodes thread protocols: parts from the Prefetcher (PF) and ParallelMapper (PM) protocol models: theorems over every
interleaving, trace validation of the real threads under the virtual scheduler (K-T), and oracles on the real code (K-O)."""
from __future__ import annotations

from . import _compose, pf_parts

RULE = 'instrumented sources counting pulls and concurrent entries, probed at every scheduler switch point; slow sources in virtual time; histories of partial consumption then reset/iter/load. Non-trivial: read-ahead reached its bound or a reset happened while the reader was active; distinct by (case, schedule).'
EXPLANATION = 'Lean: PF/PM.readahead_bound (sem + held + taken-not-released = max in every reachable state), PF.single_driver_partial with the refuted full statement (known finding: timed joins give up while the reader is inside a slow source). Tie: trace validation incl. enter/leave of the source. Oracle: probes at every switch point.'
ASSUMPTIONS = ["the real reader/worker/sorter threads run on virtual threading/queue/time primitives (harness/vsched.py); virtual time only"]

PARTS = pf_parts.parts("C12")

try:
    from . import pm_parts
    PARTS += pm_parts.parts("C12")
except ImportError:
    pass
_compose.assemble(globals(), PARTS, RULE, EXPLANATION, ASSUMPTIONS)
