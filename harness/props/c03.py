"""C03 - oracle: harness/props/sdl_ko.py (check_c03) on the real StatefulDataLoader under the virtual scheduler;
theorems and correspondence legs come from the SP / MP model parts."""
from __future__ import annotations

from . import _compose, sdl_ko

RULE = 'configurations from harness.sdl.gen_cfg x schedule policy; StatefulDataLoader vs torch.utils.data.DataLoader on identical arguments over 2 epochs (both on virtual workers), shuffle configurations checked for exactly-once per epoch, in_order=False as multisets. Non-trivial: num_workers>=2 and at least 3 batches per epoch; distinct by (configuration, policy).'
EXPLANATION = "Lean: TDV.SP.stream_eq_ref_* (single process) and TDV.MP.yields_prefix_ref / exactly_once (all schedules). Tie: SP K-D and MP K-T legs. Oracle: batch-for-batch equality with torch's DataLoader."
ASSUMPTIONS = ["worker processes are virtual processes under harness/vsched.py (real _worker_loop, deep-copied arguments, pickled queue payloads)"]

PARTS = [_compose.ko_part("ko", sdl_ko.gen_c03, sdl_ko.check_c03, 200, 4000, known=None)]
PARTS.append(_compose.ko_part("ko_timeout", sdl_ko.gen_timeout, sdl_ko.check_timeout, 40, 600, known=None))
from . import sp_kd
PARTS.append(_compose.Part("sp_kd", lambda ctx: sp_kd.run_kd(ctx, 500, 5000), sp_kd.replay_kd, theorems=sp_kd.THEOREMS_C03, modules=sp_kd.LEAN_MODULES))
try:
    from . import mp_parts
    PARTS += mp_parts.parts("C03")
except ImportError:
    pass
_compose.assemble(globals(), PARTS, RULE, EXPLANATION, ASSUMPTIONS)
