"""Shared by c04.py / c02.py: pipeline descriptions, the real torchdata.nodes pipeline built from a
description, the op runner, the generator, and a pure-Python reference evaluator.

A description is the JSON the Lean driver `TDV.Drv.Nodes.handle` takes:
  {"op":"list","items":[...]} | {"op":"stateful","items":[...]} | {"op":"sampler","epochs":[[..],..],"upd":U,"e0":n}
  {"op":"map","f":F,"src":D} | {"op":"batch","bs":n,"drop_last":b,"src":D} | {"op":"unbatch","src":D}
  {"op":"filter","p":P,"src":D} | {"op":"buffered","sf":n,"pf":n,"src":D}            (Prefetcher)
  {"op":"prebatch_map","f":F,"pb":n,"src":D}                                       (ParallelMapper(num_workers=0, prebatch))
  {"op":"pmap","f":F,"sf":n,"nw":n,"pb":n|null,"method":"thread"|"process","in_order":b,"src":D}
                                                                                   (ParallelMapper(num_workers>0))
Items: int | None | list of items.

Every case runs inside a `vsched.Session` (virtual scheduler): Prefetcher / ParallelMapper threads and (virtual)
processes are the REAL code on virtual primitives, scheduled deterministically from a seed that is part of the
case: `sched = {"seed": n, "adv": bool, "weights": {...}|None}`.
"""
from __future__ import annotations

import contextlib
import copy
import gc
from typing import Any, Dict, List, Optional, Tuple

from .. import vsched

READER_NAMES = ("read_thread", "worker_thread(target=_populate_queue)")


def gen_sched(rng) -> Dict[str, Any]:
    """A schedule: seed, adversarial timeouts on/off, sometimes a starved reader or a starved consumer."""
    r = rng.random()
    w = None
    if r < 0.2:
        w = {n: 0.05 for n in READER_NAMES}
    elif r < 0.4:
        w = {"main": 0.05}
    return {"seed": rng.randrange(1 << 30), "adv": rng.random() < 0.5, "weights": w}


@contextlib.contextmanager
def session(sched: Optional[Dict[str, Any]], nodes: List[Any]):
    """Runs the body under a virtual scheduler (which switches the cyclic GC off for the case and collects at its
    boundaries); every node appended to `nodes` is shut down and collected before the session closes, so that
    `__del__` -> `_shutdown()` of abandoned iterators happens at a fixed point of the schedule.  Everything alive
    before the case (torch!) is moved out of the collector's view, which keeps those collections cheap."""
    sched = sched or {"seed": 0, "adv": False, "weights": None}
    import torchdata.nodes  # noqa: F401  (before the freeze)
    gc.collect()
    gc.freeze()
    with vsched.Session(sched["seed"], adversarial=bool(sched.get("adv")), weights=sched.get("weights") or None) as s:
        try:
            yield s
        finally:
            try:
                for n in nodes:
                    shutdown(n)
                del nodes[:]
            except BaseException:  # noqa: BLE001  (a hang while cleaning up is not the case's verdict)
                pass


class MapErr(ArithmeticError):
    pass


def _inc(x):
    if type(x) is int:
        return x + 1
    raise MapErr("inc")


def _dbl(x):
    if type(x) is int:
        return 2 * x
    raise MapErr("dbl")


def _none_if_odd(x):
    if type(x) is int:
        return None if x % 2 == 1 else x
    return x


def _err_if_3(x):
    if type(x) is int and x == 3:
        raise MapErr("three")
    return x


def _wrap(x):
    return [x]


def _rep(x):
    if type(x) is int:
        return [x] * (x % 4)
    return []


def _id(x):
    return x


MAP_FNS = {"id": _id, "inc": _inc, "dbl": _dbl, "none_if_odd": _none_if_odd, "err_if_3": _err_if_3,
           "wrap": _wrap, "rep": _rep}


def _truthy(x):
    return bool(x)


def _is_even(x):
    return type(x) is int and x % 2 == 0


def _not_none(x):
    return x is not None


def _all(x):
    return True


def _nothing(x):
    return False


PRED_FNS = {"is_even": _is_even, "truthy": _truthy, "not_none": _not_none, "all": _all, "nothing": _nothing}


def _upd_inc(e):
    return e + 1


def _upd_add2(e):
    return e + 2


def _upd_same(e):
    return e


UPD_FNS = {"inc": _upd_inc, "add2": _upd_add2, "same": _upd_same}


class EpochSampler:
    """A sampler whose order is a function of the epoch passed to set_epoch (like DistributedSampler)."""

    def __init__(self, epochs):
        self.epochs = epochs
        self.epoch = 0

    def set_epoch(self, e):
        self.epoch = e

    def __iter__(self):
        return iter(list(self.epochs[self.epoch % len(self.epochs)]))

    def __len__(self):
        return len(self.epochs[self.epoch % len(self.epochs)])


class StatefulList:
    """A well-behaved Stateful iterable (the model's `listIter`): iter() starts at a pending loaded
    position, else at 0; the iterator shares the object's state; state_dict is the position."""

    def __init__(self, items):
        self.items = items
        self.pos = 0
        self.pending = None

    def __iter__(self):
        if self.pending is not None:
            self.pos, self.pending = self.pending, None
        else:
            self.pos = 0
        return self

    def __next__(self):
        if self.pos < len(self.items):
            v = self.items[self.pos]
            self.pos += 1
            return v
        raise StopIteration

    def state_dict(self):
        return {"pos": self.pos}

    def load_state_dict(self, sd):
        self.pending = sd["pos"]


def build_real(d: Dict[str, Any]):
    import torchdata.nodes as N

    op = d["op"]
    if op == "list":
        return N.IterableWrapper(copy.deepcopy(d["items"]))
    if op == "stateful":
        return N.IterableWrapper(StatefulList(copy.deepcopy(d["items"])))
    if op == "sampler":
        return N.SamplerWrapper(EpochSampler(copy.deepcopy(d["epochs"])), initial_epoch=d.get("e0", 0),
                                epoch_updater=UPD_FNS[d["upd"]])
    src = build_real(d["src"])
    if op == "map":
        return N.Mapper(src, MAP_FNS[d["f"]])
    if op == "batch":
        return N.Batcher(src, batch_size=d["bs"], drop_last=d["drop_last"])
    if op == "unbatch":
        return N.Unbatcher(src)
    if op == "filter":
        return N.Filter(src, PRED_FNS[d["p"]])
    if op == "buffered":
        return N.Prefetcher(src, prefetch_factor=d.get("pf", 2), snapshot_frequency=d["sf"])
    if op == "prebatch_map":
        return N.ParallelMapper(src, MAP_FNS[d["f"]], num_workers=0, prebatch=d["pb"])
    if op == "pmap":
        return N.ParallelMapper(src, MAP_FNS[d["f"]], num_workers=d.get("nw", 2), in_order=d.get("in_order", True),
                                method=d.get("method", "thread"), snapshot_frequency=d["sf"], prebatch=d.get("pb"))
    raise ValueError(op)


def shutdown(node):
    """Stop background threads of Prefetcher / ParallelMapper nodes promptly (test hygiene only)."""
    seen = set()
    stack = [node]
    while stack:
        x = stack.pop()
        if id(x) in seen or x is None:
            continue
        seen.add(id(x))
        it = getattr(x, "_it", None)
        if it is not None and hasattr(it, "_shutdown"):
            try:
                it._shutdown()
            except Exception:
                pass
        for a in ("source", "_it"):
            y = getattr(x, a, None)
            if y is not None and hasattr(y, "__dict__"):
                stack.append(y)


def err_code(e: BaseException):
    if isinstance(e, MapErr):
        return 1
    if isinstance(e, ValueError):
        return 2
    if isinstance(e, TypeError):
        return 3
    return "other:" + type(e).__name__


def canon_item(x):
    try:
        import torch
        if isinstance(x, torch.Tensor):
            return x.tolist()
    except Exception:
        pass
    if isinstance(x, (list, tuple)):
        return [canon_item(y) for y in x]
    return x


def run_ops_real(d: Dict[str, Any], ops: List[Any], sched: Optional[Dict[str, Any]] = None) -> List[Any]:
    """Observations in the driver's format; stops after a reset that raised and at a hang ("hang")."""
    nodes: List[Any] = []
    toks: List[Any] = []
    obs: List[Any] = []
    with session(sched, nodes) as s:
        node = build_real(d)
        nodes.append(node)
        try:
            for o in ops:
                s.begin_op()
                if o == "next":
                    try:
                        obs.append({"i": canon_item(next(node))})
                    except StopIteration:
                        obs.append("stop")
                    except Exception as e:  # noqa: BLE001
                        obs.append({"e": err_code(e)})
                elif o == "get":
                    obs.append(len(toks))
                    toks.append(copy.deepcopy(node.state_dict()))
                elif o == "fresh":
                    node = build_real(d)
                    nodes.append(node)
                    obs.append("ok")
                else:
                    sd = None if o == "reset_none" else copy.deepcopy(toks[o[1]])
                    try:
                        node.reset(sd)
                        obs.append("ok")
                    except Exception:  # noqa: BLE001
                        obs.append("raise")
                        break
        except vsched.VHang as h:
            obs.append("hang: " + str(h)[:120])
        node = None
    return obs


def truncate_at_raise(obs: List[Any]) -> List[Any]:
    out = []
    for o in obs:
        out.append(o)
        if o == "raise":
            break
    return out


# --------------------------------------------------------------------------------------------------
# static information about a description


def info(d) -> Dict[str, Any]:
    """depth: nesting depth of items (0 = scalars); may_err: some next() may raise; threaded: contains a
    Prefetcher / threaded ParallelMapper; size: number of operators."""
    op = d["op"]
    if op in ("list", "stateful"):
        depths = {_depth(x) for x in d["items"]}
        dep = depths.pop() if len(depths) == 1 else (0 if not depths else -1)
        return {"depth": dep, "may_err": False, "threaded": False, "unordered": False, "size": 1, "has_none": _has_none(d["items"])}
    if op == "sampler":
        its = [x for e in d["epochs"] for x in e]
        depths = {_depth(x) for x in its}
        dep = depths.pop() if len(depths) == 1 else (0 if not depths else -1)
        return {"depth": dep, "may_err": False, "threaded": False, "unordered": False, "size": 1, "has_none": _has_none(its)}
    s = info(d["src"])
    r = dict(s)
    r["size"] = s["size"] + 1
    if op in ("map", "prebatch_map", "pmap"):
        f = d["f"]
        if f in ("inc", "dbl"):
            if s["depth"] != 0 or s["has_none"]:
                r["may_err"] = True
        elif f == "err_if_3":
            r["may_err"] = True
        elif f == "none_if_odd":
            r["has_none"] = r["has_none"] or s["depth"] == 0
        elif f in ("wrap", "rep"):
            r["depth"] = s["depth"] + 1 if s["depth"] >= 0 else -1
        if op == "pmap":
            r["threaded"] = True
            if not d.get("in_order", True) and d.get("nw", 2) > 1:
                r["unordered"] = True
    elif op == "batch":
        r["depth"] = s["depth"] + 1 if s["depth"] >= 0 else -1
    elif op == "unbatch":
        if s["depth"] >= 1:
            r["depth"] = s["depth"] - 1
        else:
            r["may_err"] = True
            r["depth"] = -1
    elif op == "buffered":
        r["threaded"] = True
    return r


def _depth(x):
    if isinstance(x, list):
        ds = {_depth(y) for y in x}
        if not ds:
            return 1
        return 1 + max(ds)
    return 0


def _has_none(xs):
    return any(x is None or (isinstance(x, list) and _has_none(x)) for x in xs)


# --------------------------------------------------------------------------------------------------
# reference evaluator (written from the documentation; error-free pipelines only)


def ref_epoch(d, j: int) -> List[Any]:
    """Items of the j-th epoch (0-based, obtained by j+1 calls of reset() each followed by a full pass)."""
    op = d["op"]
    if op in ("list", "stateful"):
        return copy.deepcopy(d["items"])
    if op == "sampler":
        e = d.get("e0", 0)
        for _ in range(j):
            e = UPD_FNS[d["upd"]](e)
        return copy.deepcopy(d["epochs"][e % len(d["epochs"])])
    xs = ref_epoch(d["src"], j)
    if op in ("map", "prebatch_map", "pmap"):
        return [MAP_FNS[d["f"]](x) for x in xs]
    if op == "batch":
        bs = d["bs"]
        out = [xs[i:i + bs] for i in range(0, len(xs), bs)]
        if out and len(out[-1]) < bs and d["drop_last"]:
            out.pop()
        return out
    if op == "unbatch":
        return [y for b in xs for y in b]
    if op == "filter":
        return [x for x in xs if PRED_FNS[d["p"]](x)]
    if op == "buffered":
        return xs
    raise ValueError(op)


# --------------------------------------------------------------------------------------------------
# generator


def gen_items(rng, n, allow_none=True, depth=0):
    out = []
    for _ in range(n):
        if depth > 0:
            out.append(gen_items(rng, rng.choice([0, 1, 2, 3]), allow_none, depth - 1))
        elif allow_none and rng.random() < 0.15:
            out.append(None)
        else:
            out.append(rng.randrange(0, 9))
    return out


def gen_leaf(rng, maxlen=7):
    n = rng.choice([x for x in [0, 1, 1, 2, 3, 4, 5, 6, 7] if x <= maxlen])
    depth = 1 if rng.random() < 0.15 else 0
    allow_none = rng.random() < 0.5
    r = rng.random()
    if r < 0.5:
        return {"op": "list", "items": gen_items(rng, n, allow_none, depth)}
    if r < 0.7:
        return {"op": "stateful", "items": gen_items(rng, n, allow_none, depth)}
    ne = rng.choice([1, 2, 3])
    return {"op": "sampler", "epochs": [gen_items(rng, rng.choice([x for x in [0, 1, 2, 3, 4, 5, 6] if x <= maxlen]) if i else n, allow_none, depth) for i in range(ne)],
            "upd": rng.choice(["inc", "inc", "add2", "same"]), "e0": rng.choice([0, 0, 1, 2])}


def _assemble(chain: List[Dict[str, Any]]):
    d = copy.deepcopy(chain[0])
    for op in chain[1:]:
        nd = copy.deepcopy(op)
        nd["src"] = d
        d = nd
    return d


def _gen_threaded_op(rng, sub, unordered_ok: bool) -> Dict[str, Any]:
    """A Prefetcher or a ParallelMapper(num_workers>0) to put on top of `sub`.  A ParallelMapper is only put
    over pipelines that cannot raise (a source error leaves its next() hanging, C11) and gets a function that
    cannot raise on what arrives."""
    s = info(sub)
    if s["may_err"] or rng.random() < 0.45:
        return {"op": "buffered", "sf": rng.choice([0, 1, 1, 2, 3]), "pf": rng.choice([1, 2, 4])}
    fs = ["id", "id"]
    if s["depth"] == 0 and not s["has_none"]:
        fs += ["inc", "dbl"]
    nw = rng.choice([1, 2, 2, 3])
    in_order = True
    if nw == 1 and rng.random() < 0.3:
        in_order = False          # one worker: the order is still the source order
    elif unordered_ok and nw > 1 and rng.random() < 0.5:
        in_order = False
    return {"op": "pmap", "f": rng.choice(fs), "sf": rng.choice([0, 1, 1, 2, 3]), "nw": nw,
            "pb": rng.choice([None, None, 2, 3]), "method": rng.choice(["thread", "thread", "thread", "process"]),
            "in_order": in_order}


def gen_pipe(rng, depth: int, allow_err: bool, p_thread: float = 0.4, unordered_root: bool = False, maxlen: int = 7):
    """Random pipeline with at most `depth` sequential operators above the leaf; with probability `p_thread`
    one or two threaded operators (Prefetcher / ParallelMapper with workers) are inserted at random places.
    unordered_root: the root may be a ParallelMapper(in_order=False) with several workers."""
    chain: List[Dict[str, Any]] = [gen_leaf(rng, maxlen)]
    for _ in range(rng.randrange(0, depth + 1)):
        s = info(_assemble(chain))
        choices = ["map", "batch", "filter", "prebatch_map"]
        if s["depth"] >= 1 or (allow_err and rng.random() < 0.1):
            choices += ["unbatch", "unbatch"]
        op = rng.choice(choices)
        if op in ("map", "prebatch_map"):
            fs = ["id", "none_if_odd", "wrap", "rep"]
            if s["depth"] == 0 and not s["has_none"]:
                fs += ["inc", "dbl", "inc"]
            if allow_err:
                fs += ["err_if_3", "inc"]
            f = rng.choice(fs)
            nd = {"op": "map", "f": f} if op == "map" else {"op": "prebatch_map", "f": f, "pb": rng.choice([1, 2, 3])}
        elif op == "batch":
            nd = {"op": "batch", "bs": rng.choice([1, 2, 2, 3, 4]), "drop_last": rng.random() < 0.5}
        elif op == "unbatch":
            nd = {"op": "unbatch"}
        else:
            nd = {"op": "filter", "p": rng.choice(["is_even", "truthy", "not_none", "all", "nothing"])}
        if not allow_err and info(_assemble(chain + [nd]))["may_err"]:
            continue
        chain.append(nd)
    if rng.random() < p_thread:
        for _ in range(rng.choice([1, 1, 2])):
            pos = rng.randrange(1, len(chain) + 1)
            at_root = pos == len(chain)
            top = _gen_threaded_op(rng, _assemble(chain[:pos]), unordered_root and at_root)
            cand = chain[:pos] + [top] + chain[pos:]
            if top["op"] == "pmap" and info(_assemble(cand))["may_err"] and not allow_err:
                top["f"] = "id"
            # a ParallelMapper must never sit above something that can raise
            ok = True
            for i, c in enumerate(cand):
                if c["op"] == "pmap" and info(_assemble(cand[:i]))["may_err"]:
                    ok = False
            if ok:
                chain = cand
    return _assemble(chain)


def gen_ops(rng, n: int, with_tokens: bool, strict_epochs: bool = False, fresh_only: bool = False) -> List[Any]:
    """strict_epochs: `reset_none` only after at least one `next` since the last reset.  Needed for
    pipelines with reader threads: the reader calls next() on the source ahead of the consumer, so whether
    a SamplerWrapper below has `_started` when reset() comes without a consumer next() depends on timing.
    fresh_only: a pipeline object is never reset while it may have live reader threads (no `reset_none` after
    the first op, every `reset_tok` goes to a freshly built object).  Used with adversarial join timeouts, where
    reset() of a live Prefetcher/ParallelMapper is the known C12 finding (old reader still inside the source)."""
    ops: List[Any] = ["reset_none"]
    ntok = 0
    for _ in range(n):
        r = rng.random()
        if r < 0.62:
            ops.append("next")
        elif r < 0.72:
            nexted = False
            for o in reversed(ops):
                if o == "next":
                    nexted = True
                    break
                if o == "reset_none" or isinstance(o, list):
                    break
            ops.append("reset_none" if (nexted or not strict_epochs) and not fresh_only else "next")
        elif with_tokens and r < 0.86:
            ops.append("get")
            ntok += 1
        elif with_tokens and ntok > 0 and r < 0.97:
            if fresh_only or rng.random() < 0.3:
                ops.append("fresh")
            ops.append(["reset_tok", rng.randrange(ntok)])
        elif with_tokens and ntok > 0:
            ops.append("fresh")
            ops.append(["reset_tok", rng.randrange(ntok)])
        else:
            ops.append("next")
    return ops


def pipe_sig(d) -> str:
    op = d["op"]
    if "src" in d:
        return op + "(" + pipe_sig(d["src"]) + ")"
    return op
