"""C05 - oracle: harness/props/sdl_ko.py (check_c05) on the real StatefulDataLoader under the virtual scheduler;
theorems and correspondence legs come from the SP / MP model parts."""
from __future__ import annotations

from . import _compose, sdl_ko

RULE = 'multi-worker configurations, each run under 4 schedule policies (random, adversarial timeouts, starved worker, starved/eager main, delayed queue flush): identical yields, identical state_dict() content at every position (dummy-sampler counters of iterable datasets excepted), identical continuation from two positions. Non-trivial: num_workers>=2; distinct by (configuration, policy set).'
EXPLANATION = 'Lean: TDV.MP.deterministic / delta_at_yield / snapshot_fields over every action sequence of the protocol model. Tie: MP K-T leg (traces of the real iterator under the virtual scheduler accepted by the model). Oracle: same configuration under several schedules on the real code.'
ASSUMPTIONS = ["worker processes are virtual processes under harness/vsched.py (real _worker_loop, deep-copied arguments, pickled queue payloads)"]

PARTS = [_compose.ko_part("ko", sdl_ko.gen_c05, sdl_ko.check_c05, 80, 1500, known=None)]
PARTS.append(_compose.ko_part("ko_timeout", sdl_ko.gen_timeout, sdl_ko.check_timeout, 40, 600, known=None))

try:
    from . import mp_parts
    PARTS += mp_parts.parts("C05")
except ImportError:
    pass
_compose.assemble(globals(), PARTS, RULE, EXPLANATION, ASSUMPTIONS)
