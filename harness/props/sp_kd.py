"""K-D correspondence leg for the Lean model `TDV.SP` (single-process iterator of StatefulDataLoader).

`run_kd(ctx)` drives the real `StatefulDataLoader(num_workers=0)` (built by `harness.sdl.build`) and the model
(`Main/sp.lean`) through the same history of operations

    fresh (a newly built loader) | iter | next | state (state_dict -> token) | load t (load_state_dict(token t)) | peek

and compares the observations: batches / single items / "stop" / error kind for `next`, "ok"/"raise" for `iter` and
`state`, and for `peek` the bookkeeping the resume theorems talk about (`_num_yielded`, `_sampler_iter_yielded`,
`_finished`, fetcher `ended`, position of the RandomSampler's generator).  State dicts are opaque tokens (pickled).

torch's RNG is an oracle (as in c15.py): a generator state is identified with its offset in the generator's output stream
(`Stream`), and the model is given, for every offset it can reach, what `randperm(n)` returns there and where it and the
`_base_seed` draw leave the generator.
"""
from __future__ import annotations

import hashlib
import pickle
import random
from typing import Any, Dict, List, Optional, Tuple

from .. import sdl
from ..core import Ctx
from ..leanbridge import Driver

LEG = "kd_sp"
MODELLED_KINDS = {"map", "map_stateful", "iter_plain", "iter_readme", "iter_ds_state", "iter_inplace", "iter_bump",
                  "iter_it_state", "iter_selfiter", "iter_ds_eager"}
LEAN_MODULES = ["TorchDataVerif.Props.SP"]
THEOREMS_C03 = ["TDV.SP.stream_eq_ref_batch", "TDV.SP.stream_eq_ref_bare", "TDV.SP.stream_eq_ref_epochs", "TDV.SP.refMap_total",
                "TDV.SP.stream_eq_ref_iter", "TDV.SP.stream_eq_ref_iter_one", "TDV.SP.stream_eq_ref_iter_epochs",
                "TDV.SP.sampler_orders"]
THEOREMS_C10 = ["TDV.SP.error_position_map", "TDV.SP.error_position_iter_auto", "TDV.SP.error_position_iter_one",
                "TDV.SP.error_position_generator", "TDV.SP.error_position_generator_one", "TDV.SP.plainGen_outcomes"]
THEOREMS_C01 = ["TDV.SP.resume_exact_map", "TDV.SP.resume_exact_map_drop", "TDV.SP.resume_epochs", "TDV.SP.resume_epochs_finished",
                "TDV.SP.resume_chain_map", "TDV.SP.law_plain_bare", "TDV.SP.law_plain_batch", "TDV.SP.law_obj_bare",
                "TDV.SP.law_obj_batch", "TDV.SP.law_random_bare", "TDV.SP.law_random_batch",
                "TDV.SP.resume_exact_iter", "TDV.SP.resume_exact_ffwd", "TDV.SP.resume_exact_ffwd_finished",
                "TDV.SP.resume_next_epoch_iter", "TDV.SP.resume_chain_iter", "TDV.SP.resume_chain_ffwd",
                "TDV.SP.readme_stateLaw", "TDV.SP.itObj_stateLaw", "TDV.SP.selfIter_stateLaw", "TDV.SP.infSrc_bare",
                "TDV.SP.infSrc_batch",
                # the known exception: full statement is false (witness), restriction proved
                "TDV.SP.resume_next_epoch_statement_false", "TDV.SP.resume_next_epoch_partial"]
TORCH_SEED = 20261001  # global torch seed set before every loader construction (shuffle without generator= seeds from it)

RULE_KD = ("K-D SP: configurations from harness.sdl.gen_cfg(max_w=0) (all dataset kinds, batch_size None/1-4, drop_last, sampler "
           "seq/custom plain/custom stateful/batch_sampler/shuffle/shuffle with explicit generator) plus random failing item "
           "sets and failing collate sets; histories over fresh/iter/next/state_dict/load_state_dict/peek spanning several "
           "epochs and up to three loader lifetimes. A history is non-trivial when it loads a state taken after k batches "
           "with k not in {0, epoch length}, or an exception was observed; distinct by (configuration, history).")


# ------------------------------------------------------------------------------------------------
# torch RNG oracle: generator state <-> offset in the output stream


class Stream:
    _cache: Dict[int, "Stream"] = {}

    @classmethod
    def get(cls, seed: int) -> "Stream":
        if seed not in cls._cache:
            if len(cls._cache) > 64:
                cls._cache.clear()
            cls._cache[seed] = Stream(seed)
        return cls._cache[seed]

    def __init__(self, seed: int):
        import torch
        self.ref = torch.Generator()
        self.ref.manual_seed(seed)
        self.states = [self.ref.get_state()]
        self.keys: Dict[bytes, int] = {self._key(self.states[0]): 0}
        self.tmp = torch.Generator()
        self.perm_cache: Dict[Tuple[int, int], Tuple[List[int], int]] = {}
        self.seed_cache: Dict[int, int] = {}

    @staticmethod
    def _key(state) -> bytes:
        return hashlib.sha1(state.numpy().tobytes()).digest()

    def extend(self, upto: int):
        import torch
        while len(self.states) <= upto:
            torch.empty((), dtype=torch.int32).random_(generator=self.ref)  # one 32-bit output
            s = self.ref.get_state()
            self.keys.setdefault(self._key(s), len(self.states))
            self.states.append(s)

    def offset(self, state) -> int:
        k = self._key(state)
        for _ in range(6):
            if k in self.keys:
                return self.keys[k]
            self.extend(len(self.states) + 256)
        return -1

    def perm(self, n: int, p: int) -> Tuple[List[int], int]:
        import torch
        if (n, p) not in self.perm_cache:
            self.extend(p + n + 4)
            self.tmp.set_state(self.states[p])
            l = torch.randperm(n, generator=self.tmp).tolist()
            self.perm_cache[(n, p)] = (l, self.offset(self.tmp.get_state()))
        return self.perm_cache[(n, p)]

    def seed_next(self, p: int) -> int:
        import torch
        if p not in self.seed_cache:
            self.extend(p + 8)
            self.tmp.set_state(self.states[p])
            torch.empty((), dtype=torch.int64).random_(generator=self.tmp)
            self.seed_cache[p] = self.offset(self.tmp.get_state())
        return self.seed_cache[p]


# ------------------------------------------------------------------------------------------------
# configuration -> model request


def ds_n(cfg) -> int:
    return cfg["sizes"][0] if sdl.is_iter(cfg) else cfg["n"]


def epoch_len(cfg) -> int:
    n = ds_n(cfg)
    bs = cfg["bs"]
    if bs is None:
        return n
    return n // bs if cfg.get("drop_last") else (n + bs - 1) // bs


def is_random(cfg) -> bool:
    return (not sdl.is_iter(cfg)) and cfg.get("sampler") in ("shuffle", "shuffle_gen")


def model_request(cfg, ops, stream: Optional[Stream]) -> Dict[str, Any]:
    kind = cfg["kind"]
    n = ds_n(cfg)
    samp = cfg.get("sampler", "seq")
    dl = bool(cfg.get("drop_last", False))
    req: Dict[str, Any] = {
        "m": "sp",
        "ds": {"kind": "iter_ds_state" if kind in ("iter_inplace", "iter_bump") else kind, "n": n, "fail": sorted(cfg.get("fail", []))},
        "bs": cfg["bs"],
        "drop_last": dl and samp != "batch_sampler" and cfg["bs"] is not None,
        "collate_fail": sorted(cfg.get("collate_fail") or []),
        "ops": ops,
    }
    if sdl.is_iter(cfg):
        req["sampler"] = {"kind": "inf", "bdl": dl}
    elif samp in ("seq", "batch_sampler"):
        req["sampler"] = {"kind": "list", "order": list(range(n)), "bdl": dl}
    elif samp == "custom_plain":
        req["sampler"] = {"kind": "list", "order": sdl._order(cfg), "bdl": dl}
    elif samp == "custom_stateful":
        req["sampler"] = {"kind": "obj", "order": sdl._order(cfg), "bdl": dl}
    else:
        assert stream is not None
        iters = sum(1 for o in ops if o[0] == "iter")
        states = sum(1 for o in ops if o[0] == "state")
        bound = (2 * iters + states + 1) * (3 * n + 2) + 8
        perm = [list(stream.perm(n, p)) for p in range(bound)]
        seed = [stream.seed_next(p) for p in range(bound)]
        req["sampler"] = {"kind": "random", "n": n, "shared": samp == "shuffle_gen", "g0": 0, "bdl": dl, "perm": perm, "seed": seed}
    return req


# ------------------------------------------------------------------------------------------------
# the real code


ERR_KIND = {"ValueError": 0, "KeyError": 1, "IndexError": 2}


class Real:
    def __init__(self, cfg):
        self.cfg = cfg
        self.loader = None
        self.it = None
        self.tokens: List[bytes] = []
        self.stream: Optional[Stream] = None
        self.saw_error = False
        self.token_k: List[Tuple[int, bool]] = []

    def _gen_offset(self):
        if not is_random(self.cfg):
            return None
        return self.stream.offset(self.loader.sampler.generator.get_state())

    def do(self, op):
        import torch
        nm = op[0]
        if nm == "fresh":
            torch.manual_seed(TORCH_SEED)
            self.loader = sdl.build(self.cfg)
            self.it = None
            if is_random(self.cfg) and self.stream is None:
                self.stream = Stream.get(self.loader.sampler.generator.initial_seed())
            return None
        if nm == "iter":
            try:
                self.it = iter(self.loader)
            except Exception:  # the constructor of the restored iterator raised
                self.it = None
                self.saw_error = True
                return "raise"
            return "ok"
        if nm == "next":
            o = sdl.take(self.it)
            if o[0] == "item":
                return ["batch", o[1]] if isinstance(o[1], list) else ["single", o[1]]
            if o[0] == "stop":
                return ["stop"]
            self.saw_error = True
            return ["error", ERR_KIND.get(o[1], o[1])]
        if nm == "state":
            try:
                sd = self.loader.state_dict()
            except Exception:
                self.saw_error = True
                return "raise"
            self.tokens.append(pickle.dumps(sd))
            self.token_k.append((sd.get("_num_yielded", 0), bool(sd.get("_iterator_finished"))))
            return len(self.tokens) - 1
        if nm == "load":
            self.loader.load_state_dict(pickle.loads(self.tokens[op[1]]))
            self.it = None
            return None
        if nm == "peek":
            it = self.loader._iterator
            if it is None:
                return [False, 0, 0, False, False, self._gen_offset()]
            ended = bool(getattr(it._dataset_fetcher, "ended", False))
            return [True, it._num_yielded, it._sampler_iter_yielded, bool(it._finished), ended, self._gen_offset()]
        raise ValueError(op)


def canon_obs(op, o):
    if op[0] == "peek" and isinstance(o, list) and o and o[0] is False:
        return [False, o[5]]
    return o


# ------------------------------------------------------------------------------------------------
# histories


def gen_faults(rng: random.Random, cfg) -> None:
    n = ds_n(cfg)
    if n == 0:
        return
    r = rng.random()
    if r < 0.30:
        k = rng.choice([1, 1, 1, 2, 3])
        cfg["fail"] = sorted(set(rng.randrange(n) for _ in range(k)))
    if rng.random() < 0.12:
        cfg["collate_fail"] = sorted(set(rng.randrange(n) for _ in range(rng.choice([1, 1, 2]))))


def gen_history(rng: random.Random, cfg) -> List[List[Any]]:
    """A sequence of ops that only calls `next` on a live iterator and only loads existing tokens.  Whether `iter` and
    `state` succeed is not known in advance; a `next` is simply skipped by the runner when there is no iterator."""
    el = epoch_len(cfg)
    ops: List[List[Any]] = [["fresh"]]
    ntok = 0
    lifetimes = rng.choice([1, 2, 2, 3, 3])
    for life in range(lifetimes):
        if life > 0:
            ops.append(["fresh"])
            if ntok:
                ops.append(["load", rng.randrange(ntok)])
        segs = rng.choice([1, 2, 2, 3])
        for _ in range(segs):
            r = rng.random()
            if r < 0.12:
                ops.append(["state"])
                ntok += 1
            ops.append(["iter"])
            mode = rng.random()
            if mode < 0.45:
                steps = el + 1 + rng.choice([0, 0, 0, 1, 2])  # to the end (errors make it longer: see runner's "end" op)
                ops.append(["end", steps])
            else:
                steps = rng.randrange(0, el + 2)
                for _ in range(steps):
                    ops.append(["next"])
                    if rng.random() < 0.15:
                        ops.append(["state"])
                        ntok += 1
            if rng.random() < 0.7:
                ops.append(["state"])
                ntok += 1
            if rng.random() < 0.35:
                ops.append(["peek"])
            if rng.random() < 0.15 and ntok:
                ops.append(["load", rng.randrange(ntok)])
        ops.append(["peek"])
    return ops


def run_real(cfg, hist) -> Tuple[List[List[Any]], List[Any], Real]:
    """Executes `hist` on the real code; expands ["end", m] into `next` calls until the first stop (at most m + number of
    errors seen ... bounded) and drops ops that are not executable (next without iterator, load of a missing token).
    Returns the concrete op list (what the model is asked to run) and the observations."""
    real = Real(cfg)
    ops: List[List[Any]] = []
    obs: List[Any] = []

    def ex(op):
        o = real.do(op)
        ops.append(op)
        obs.append(canon_obs(op, o))
        return o

    for op in hist:
        nm = op[0]
        if nm == "next":
            if real.it is not None:
                ex(["next"])
        elif nm == "end":
            if real.it is not None:
                for _ in range(op[1] + 40):
                    o = ex(["next"])
                    if o == ["stop"]:
                        break
        elif nm == "load":
            if op[1] < len(real.tokens):
                ex(op)
        else:
            ex(op)
    return ops, obs, real


def nontrivial(cfg, ops, real: Real) -> bool:
    if real.saw_error:
        return True
    el = epoch_len(cfg)
    for op in ops:
        if op[0] == "load":
            k, fin = real.token_k[op[1]]
            if not fin and 0 < k < el:
                return True
    return False


def one_case(cfg, hist):
    ops, obs, real = run_real(cfg, hist)
    req = model_request(cfg, ops, real.stream)
    return ops, obs, req, real


def compare(ctx: Ctx, cfg, ops, obs, ans) -> Optional[str]:
    if not isinstance(ans, dict) or "obs" not in ans:
        return f"driver answer {str(ans)[:200]}"
    if ans.get("oob"):
        return "model asked for a generator offset outside the oracle table"
    mobs = [canon_obs(op, o) for op, o in zip(ops, ans["obs"])]
    if mobs != obs:
        for i, (a, b) in enumerate(zip(obs, mobs)):
            if a != b:
                return f"op {i} {ops[i]}: real {a} model {b} (ops so far {ops[max(0, i - 6):i + 1]})"
        return f"length {len(obs)} vs {len(mobs)}"
    return None


def run_kd(ctx: Ctx, n_quick: int = 1500, n_thorough: int = 12000):
    import torch
    torch.set_num_threads(1)
    rng = ctx.sub_rng("kd_sp")
    n = ctx.n(n_quick, n_thorough)
    cases = []
    for i in range(n):
        cfg = sdl.gen_cfg(rng, max_w=0)
        cfg.pop("interval", None)
        if cfg["kind"] not in MODELLED_KINDS:  # a dataset kind added to harness.sdl after this model was written
            ctx.count("kd_sp:unmodelled_kind:" + cfg["kind"])
            continue
        gen_faults(rng, cfg)
        hist = gen_history(rng, cfg)
        ops, obs, req, real = one_case(cfg, hist)
        cases.append((cfg, ops, obs, req, nontrivial(cfg, ops, real)))
    answers = Driver().run([c[3] for c in cases])
    for (cfg, ops, obs, req, nt), ans in zip(cases, answers):
        ctx.case(LEG, [cfg, ops], nt)
        ctx.count("kd_sp:kind:" + cfg["kind"])
        ctx.count("kd_sp:sampler:" + str(cfg.get("sampler", "inf")))
        if cfg.get("fail") or cfg.get("collate_fail"):
            ctx.count("kd_sp:with_faults")
        d = compare(ctx, cfg, ops, obs, ans)
        if d is not None:
            ctx.diverge(LEG, {"cfg": cfg, "ops": ops}, d)
    if cases:
        ctx.sample({"leg": LEG, "cfg": cases[0][0], "ops": cases[0][1][:12], "obs": cases[0][2][:12]})


def replay_kd(ctx: Ctx, inp) -> Tuple[bool, str]:
    """Re-runs one recorded (cfg, ops) case on the real code and the model."""
    cfg, hist = inp["cfg"], inp["ops"]
    ops, obs, req, real = one_case(cfg, hist)
    ans = Driver().run([req])[0]
    d = compare(ctx, cfg, ops, obs, ans)
    return (d is None), (d or "model and implementation agree")


# ------------------------------------------------------------------------------------------------
# the known exception (TDV.SP.resume_next_epoch_statement_false) replayed on the real code


WITNESS_CFG = {"kind": "map", "W": 0, "bs": None, "drop_last": False, "n": 7, "sampler": "shuffle_gen"}
WITNESS_OPS = ([["fresh"], ["iter"], ["next"], ["state"]] + [["next"]] * 7 + [["iter"]] + [["next"]] * 8 +
               [["fresh"], ["load", 0], ["iter"]] + [["next"]] * 7 + [["iter"]] + [["next"]] * 8)


def replay_shared_generator_witness(ctx: Ctx) -> Tuple[bool, str]:
    """shuffle=True with generator= shared by loader and sampler, checkpoint after 1 item: returns (the real code shows
    the exception AND the model reproduces the real observations, detail)."""
    ops, obs, req, real = one_case(WITNESS_CFG, WITNESS_OPS)
    ans = Driver().run([req])[0]
    d = compare(ctx, WITNESS_CFG, ops, obs, ans)
    if d is not None:
        return False, "model does not reproduce the real run: " + d
    nexts = [o for op, o in zip(ops, obs) if op[0] == "next"]
    un_ep1, un_ep2 = nexts[0:8], nexts[8:16]
    re_ep1, re_ep2 = nexts[16:23], nexts[23:31]
    rest_ok = re_ep1 == un_ep1[1:]
    next_differs = re_ep2 != un_ep2
    return (rest_ok and next_differs), (f"rest of the epoch equal: {rest_ok}; following epoch uninterrupted {un_ep2[:7]} vs "
                                        f"resumed {re_ep2[:7]}")
