"""Theorems contributed by lean Props/C02E2E.lean: the end-to-end composition of the node algebra (C02 `Built`/`Lawful`,
C04 denotations) with the Loader development (C13) over the pipeline syntax `TDV.E2EN.Pipe`
(list | sampler | stateful | map | batch | unbatch | filter | buffered, + prebatch as derived syntax).
No Python legs of their own: the K-D/K-O legs of c02.py / c04.py / c13.py / c08.py drive the same node and Loader models.

WITNESS is the Lean counterexample `loader_pipe_refines_ref_statement_false` / `built_delivers_statement_false`
(epoch accounting under Unbatcher / Prefetcher over a SamplerWrapper) as a replayable recipe for the real code."""
from __future__ import annotations

LEAN_MODULES = ["TorchDataVerif.Props.C02E2E"]
T = "TDV.E2EN."
THEOREMS_BY_PROP = {
    "C02": [T + n for n in (
        "errFree_iff_noError", "pipe_ok_built", "pipe_ok_errFree", "pipe_ok_lawful",
        "loader_pipe_resume_exact", "loader_pipe_resume_exact_obs", "loader_pipe_resume_exact_end")],
    "C04": [T + n for n in (
        "built_delivers", "built_delivers_statement_false", "unbatcher_over_sampler_not_delivers",
        "loader_pipe_refines_ref_partial", "loader_pipe_refines_ref_statement_false")],
    "C13": [T + n for n in (
        "built_delivers", "loader_pipe_refines_ref_partial", "loader_pipe_refines_ref_statement_false")],
    "C08": [T + n for n in ("loader_pipe_state_dict_transparent", "loader_pipe_load_idempotent")],
}

# Replay recipe of the refuted full-strength statement (restart_on_stop_iteration=False):
#   sampler epoch e yields [2e, 2e+1]; it = iter(ld); next(it); sd = ld.state_dict();
#   new loader over a newly built pipeline; load_state_dict(sd); iter(ld); it = iter(ld); next(it)
# observed on /repo: SamplerWrapper alone -> 0 (epoch 0, as the reference says);
#   Prefetcher(SamplerWrapper) / Unbatcher(Batcher(SamplerWrapper, 2)) -> 2 (epoch 1).
WITNESS = {
    "sampler_epoch_items": "[2*e, 2*e+1]",
    "restart_on_stop_iteration": False,
    "ops": ["iter", "next", "state_dict", "fresh", "load 0", "iter", "iter", "next"],
    "pipelines": {"SamplerWrapper": 0, "Prefetcher(SamplerWrapper)": 2, "Unbatcher(Batcher(SamplerWrapper,2))": 2},
}
