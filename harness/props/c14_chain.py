"""C14 extra oracle: checkpoint/resume CHAINS across the 1000-draw batch boundary of `_WeightedSampler`
(first checkpoint after > ~1000 choices, resume, a few more items, second checkpoint before the next refill, resume
again) — the sequence of source choices must be reproduced (seeded mutants C14-B / C02-D escaped the single resume)."""
from __future__ import annotations

import pickle
import random
from typing import Any, Dict

from ..core import Ctx


def _mk(job):
    from torchdata.nodes import IterableWrapper, MultiNodeWeightedSampler
    from torchdata.nodes.samplers.stop_criteria import StopCriteria
    srcs = {f"d{k}": IterableWrapper([100 * k + i for i in range(n)]) for k, n in enumerate(job["lens"])}
    return MultiNodeWeightedSampler(srcs, {f"d{k}": float(w) for k, w in enumerate(job["weights"])},
                                    stop_criteria=StopCriteria.CYCLE_FOREVER, seed=job["seed"], rank=job["rank"], world_size=job["world"])


def check(ctx: Ctx, job: Dict[str, Any]):
    n1, j, tail = job["n1"], job["j"], 40
    ref_node = _mk(job)
    ref_node.reset()
    ref = [next(ref_node) for _ in range(n1 + j + tail)]
    a = _mk(job)
    a.reset()
    for _ in range(n1):
        next(a)
    sd1 = pickle.loads(pickle.dumps(a.state_dict()))
    b = _mk(job)
    b.reset(sd1)
    mid = [next(b) for _ in range(j)]
    sd2 = pickle.loads(pickle.dumps(b.state_dict()))
    c = _mk(job)
    c.reset(sd2)
    got = [next(c) for _ in range(tail)]
    ctx.case("ko_c14_chain", job, n1 >= 1000)
    if mid != ref[n1:n1 + j]:
        ctx.fail("chain_first_resume", job, f"resume after {n1} items continues {mid[:6]} instead of {ref[n1:n1+6]}")
    elif got != ref[n1 + j:]:
        d = next(i for i, (x, y) in enumerate(zip(got, ref[n1 + j:])) if x != y)
        ctx.fail("chain_second_resume", job, f"checkpoint after {n1} items -> resume -> {j} more -> checkpoint -> resume: item +{d} is {got[d]} instead of {ref[n1+j+d]}")


def run(ctx: Ctx):
    jobs = []
    for i in range(ctx.n(40, 600)):
        r = ctx.rng
        k = r.randrange(2, 4)
        jobs.append({"lens": [r.randrange(1, 6) for _ in range(k)], "weights": [r.randrange(1, 5) for _ in range(k)],
                     "seed": r.randrange(50), "rank": 0, "world": 1,
                     "n1": r.choice([990, 999, 1000, 1001, 1003, 1500, 2001, r.randrange(1, 2100)]), "j": r.randrange(1, 8)})
    ctx.pmap(check, jobs)


def replay(ctx: Ctx, payload):
    sub = Ctx(ctx.prop, ctx.tier, ctx.seed)
    check(sub, payload["input"])
    return (False, sub.failures[0].what) if sub.failures else (True, "chain reproduces the choice stream")
