"""C10 / C17 part: the persistent-worker RESUME HANDSHAKE with failing epoch starts (repo fix 32c63fa).

Lean: `Model/MPHandshake.lean` (namespace TDV.MPH: `step` = the fixed protocol, `stepOld` = the one before),
`Proofs/MPH*.lean`, `Props/MPH.lean`, driver `Drv/MPH.lean` (`Main/mph.lean`, request key "m":"mph").

Theorems (every W, every set of failing (epoch, worker) starts, every interleaving of main and workers):
  handshake_drains         when iter() has returned or raised, no acknowledgement / _ResumeIteration is left in any queue
  workers_survive          no worker dies in a handshake
  error_iff_failing_start  iter() of epoch e raises iff a start of THAT epoch failed, with that epoch's exception of such a worker
  next_epoch_fresh         a successful handshake (after whatever failures) leaves the state of a freshly started iterator
and for the protocol before the fix the refutations `handshake_drains_old_false`, `workers_survive_old_false`,
`error_iff_failing_start_old_false`, `stale_exception_old` (W=2, the start of epoch 2 fails in worker 0).

K-T leg `run_kt`: configurations of kind `iter_start_fail` (the dataset's __iter__ raises at chosen epoch starts in chosen
workers; persistent workers) are run on the real loader under the virtual scheduler, several epochs, with the queue
operations logged (same instrumentation as mp_trace).  Per run one trace: iter() called, `_ResumeIteration` put on index
queue w, worker w put its acknowledgement (state or exception), main took it, main's get timed out, iter() returned /
raised (which worker's exception), and after every handshake which worker processes are alive and how many
acknowledgements are left in the data queue.  The Lean driver must accept the trace as a run of `step`.
"""
from __future__ import annotations

import gc
import random
import re
from typing import Any, Dict, List, Tuple

from .. import sdl, vsched
from ..core import Ctx
from ..leanbridge import Driver
from . import _compose, mp_trace

LEG = "kt_mph"
LEAN_MODULES = ["TorchDataVerif.Props.MPH"]
T = "TDV.MPH."
THEOREMS = [T + t for t in (
    "handshake_drains", "workers_survive", "error_iff_failing_start", "next_epoch_fresh",
    "handshake_drains_old_false", "workers_survive_old_false", "error_iff_failing_start_old_false",
    "stale_exception_old", "oldRun1_state", "oldRun1_alive", "oldRun2_log",
)]
POLICIES = ["random", "adversarial", "starve_workers", "favour_workers", "starve_one"]
RULE = ("K-T MPH: iter_start_fail configurations, W 1-3, persistent workers, 3-5 epochs, 1-3 failing (epoch, worker) starts in "
        "epochs >= 2, 0-2 batches consumed per epoch before the next iter(); schedules " + ", ".join(POLICIES) + ". A trace is "
        "non-trivial when some handshake has a failing start; distinct by (cfg, epochs, consumption, policy, seed).")
UNKNOWN_W = 1000000


def gen_case(rng: random.Random) -> Dict[str, Any]:
    W = rng.choice([1, 2, 2, 3])
    E = rng.choice([3, 4, 5])
    cfg: Dict[str, Any] = {"kind": "iter_start_fail", "W": W, "bs": rng.choice([None, 1, 2]), "drop_last": False,
                           "interval": rng.choice([1, 2, None]), "sizes": [rng.randrange(1, 5) for _ in range(W)],
                           "pf": rng.choice([1, 2]), "persistent": True}
    fails: Dict[str, List[int]] = {}
    for _ in range(rng.choice([1, 1, 2, 3])):
        e, w = rng.randrange(2, E + 1), rng.randrange(W)
        if e not in fails.setdefault(str(w), []):
            fails[str(w)].append(e)
    cfg["start_fail"] = {k: sorted(v) for k, v in fails.items()}
    return {"cfg": cfg, "epochs": E, "consume": [rng.choice([0, 0, 1, 2, 99]) for _ in range(E)],
            "seed": rng.randrange(1 << 30), "policy": rng.choice(POLICIES)}


def model_cfg(cfg) -> Dict[str, Any]:
    early = sorted([e, int(w)] for w, es in cfg.get("start_fail", {}).items() for e in es)
    return {"W": cfg["W"], "early": early, "late": []}


def _exc_worker(e: BaseException) -> int:
    m = re.search(r"worker process (\d+)", str(e))
    return int(m.group(1)) if m else UNKNOWN_W


def run_case(case: Dict[str, Any]) -> Tuple[List[list], Dict[str, Any]]:
    """Runs the real loader for `case`; returns (trace for Drv/MPH.lean, stats)."""
    import torch
    from torch._utils import ExceptionWrapper
    from torch.utils.data._utils.worker import _ResumeIteration
    cfg, seed, policy, E = case["cfg"], case["seed"], case["policy"], case["epochs"]
    kw: Dict[str, Any] = {}
    if policy == "adversarial":
        kw["adversarial"] = True
    if policy == "starve_workers":
        kw["weights"] = {"Process-": 0.1}
    if policy == "favour_workers":
        kw["weights"] = {"Process-": 8.0}
    trace: List[list] = []
    hang = None
    failed_epochs = 0
    with vsched.Session(seed, **kw) as s:
        torch.manual_seed(4321)
        mpctx = mp_trace.KTCtx()
        log = mpctx.log
        loader = sdl.build(cfg, ctx=mpctx)
        s.begin_op()
        it = iter(loader)  # epoch 1: construction (start-up handshake, not part of the model)
        itobj = loader._iterator
        if policy == "starve_one" and cfg["W"] > 1:
            s.weights[itobj._workers[seed % cfg["W"]].name] = 0.02
        iq = {id(q): i for i, q in enumerate(itobj._index_queues)}
        rq = itobj._worker_result_queue

        def consume(n):
            nonlocal hang
            for _ in range(n):
                o = sdl.take(it, s)
                if o[0] == "hang":
                    hang = o[1]
                if o[0] != "item":
                    break

        def translate(lo: int):
            for who, op, q, item in log.ev[lo:]:
                is_main = who == "main"
                if q is rq:
                    if op == "timeout":
                        if is_main:
                            trace.append(["timeout"])
                        continue
                    a, b = item
                    if not isinstance(a, _ResumeIteration):
                        continue  # batches of the abandoned epoch: dropped by the handshake, not modelled
                    ok = not isinstance(b.initial_state, ExceptionWrapper)
                    trace.append(["ack" if op == "put" else "recv", int(b.worker_id), ok])
                elif id(q) in iq and op == "put" and isinstance(item, _ResumeIteration):
                    trace.append(["send", iq[id(q)]])

        consume(case["consume"][0])
        for e in range(2, E + 1):
            if hang:
                break
            lo = len(log.ev)
            trace.append(["iter"])
            s.begin_op()
            outcome = None
            try:
                it = iter(loader)
                outcome = ["finished"]
            except vsched.VHang as ex:
                hang = str(ex)
            except Exception as ex:  # noqa: BLE001
                if isinstance(ex, RuntimeError) and "exited unexpectedly" in str(ex):
                    outcome = ["died"]
                else:
                    outcome = ["raised", _exc_worker(ex)]
                    failed_epochs += 1
            translate(lo)
            if outcome is None:
                break
            trace.append(outcome)
            alive = [w.vt.state != "done" for w in itobj._workers]
            nacks = sum(1 for x in list(rq.queue) + list(rq.pending) if isinstance(x[0], _ResumeIteration))
            trace.append(["end", alive, nacks])
            if outcome == ["finished"]:
                consume(case["consume"][e - 1])
        del it, loader, itobj
        gc.collect()
    return trace, {"hang": hang, "failed_epochs": failed_epochs, "events": len(trace)}


def check(case) -> Tuple[Any, Dict[str, Any], List[list]]:
    trace, st = run_case(case)
    ans = Driver().run([{"m": "mph", "cfg": model_cfg(case["cfg"]), "trace": trace}])[0]
    return ans, st, trace


def _job(ctx: Ctx, cases: List[Dict[str, Any]]):
    runs = [(c, *run_case(c)) for c in cases]
    answers = Driver().run([{"m": "mph", "cfg": model_cfg(c["cfg"]), "trace": tr} for c, tr, _ in runs])
    for (c, tr, st), ans in zip(runs, answers):
        ctx.model_lines += 1
        ctx.case(LEG, [c["cfg"], c["epochs"], c["consume"], c["policy"], c["seed"]], st["failed_epochs"] > 0)
        ctx.count("kt_mph:W=%d" % c["cfg"]["W"])
        ctx.count("kt_mph:failed_epochs=%d" % min(st["failed_epochs"], 3))
        if st["hang"]:
            ctx.diverge(LEG, c, "the real run hangs: " + str(st["hang"])[:200])
        elif not (isinstance(ans, dict) and ans.get("ok")):
            at = ans.get("at") if isinstance(ans, dict) else None
            ctx.diverge(LEG, c, f"model rejects the trace: {str(ans)[:300]}; events around: {tr[max(0, (at or 0) - 3):(at or 0) + 2]}")


def run_kt(ctx: Ctx, quick: int = 60, thorough: int = 1200):
    import torch
    torch.set_num_threads(1)
    rng = ctx.sub_rng(LEG)
    cases = [gen_case(rng) for _ in range(ctx.n(quick, thorough))]
    # the Lean witness configuration (W=2, the start of epoch 2 fails in worker 0) is always among the cases
    cases[0] = {"cfg": {"kind": "iter_start_fail", "W": 2, "bs": 1, "drop_last": False, "interval": 1, "sizes": [2, 2], "pf": 2,
                        "persistent": True, "start_fail": {"0": [2]}}, "epochs": 4, "consume": [1, 0, 99, 0],
                "seed": cases[0]["seed"], "policy": "random"}
    if cases:
        ctx.sample({"leg": LEG, "case": cases[0]})
    nchunks = max(1, min(8, len(cases) // 6))
    ctx.pmap(_job, [cases[i::nchunks] for i in range(nchunks)])


def replay_kt(ctx: Ctx, payload) -> Tuple[bool, str]:
    case = payload.get("input", payload.get("case", payload))
    ans, st, trace = check(case)
    if st["hang"]:
        return False, "the real run hangs: " + str(st["hang"])[:200]
    return bool(isinstance(ans, dict) and ans.get("ok")), str(ans)[:400]


def parts():
    return [_compose.Part("mph_kt", run_kt, replay_kt, theorems=THEOREMS, modules=LEAN_MODULES)]
