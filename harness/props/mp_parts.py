"""Parts contributed by the multi-process protocol model (harness/props/mp_trace.py, lean Model/MP.lean)."""
from __future__ import annotations

from . import _compose, mp_trace

LEAN_MODULES = ["TorchDataVerif.Props.MP"]
T = "TDV.MP."
THEOREMS_BY_PROP = {
    "C01": ["snapshot_fields", "snapshot_fields_map", "snapshot_fields_map_errFree", "take_snapshot_assertion_holds_map",
            "delta_at_yield_map", "deterministic"],
    "C03": ["yields_prefix_ref", "yields_prefix_ref_map", "yields_prefix_ref_iter", "epoch_complete", "epoch_complete_map",
            "epoch_complete_iter", "progress", "progress_map", "variant_map", "variant_iter"],
    "C05": ["deterministic", "deterministic_map", "deterministic_iter", "snapshot_fields", "snapshot_fields_map",
            "snapshot_fields_map_errFree", "take_snapshot_assertion_holds_map", "delta_at_yield_map", "yields_prefix_ref"],
    "C09": ["kill_safe", "kill_safe_map", "kill_detected", "progress"],
    # full strength since repo fix f1014eb (map-style snapshots are triggered by the task that carries the main snapshot);
    # `c10a` (the former negation witness) is a regression `example`, replayed by mp_trace.replay_c10a
    "C10": ["error_position_map", "error_position", "error_position_prefix_iter", "take_snapshot_assertion_holds_map",
            "snapshot_fields_map"],
    "C16": [],
    "C17": [],
}
try:
    from . import mpu_parts as _mpu
    LEAN_MODULES_MPU = list(_mpu.LEAN_MODULES)
    MPU_BY_PROP = dict(_mpu.THEOREMS_BY_PROP)
except ImportError:
    LEAN_MODULES_MPU, MPU_BY_PROP = [], {}
# theorems added by the model's author after this table was written are picked up if mp_trace exports them
try:
    for k, v in getattr(mp_trace, "THEOREMS_BY_PROP", {}).items():
        for t in v:
            t = t.replace(T, "")
            if t not in THEOREMS_BY_PROP.setdefault(k, []):
                THEOREMS_BY_PROP[k].append(t)
except Exception:
    pass


def parts(prop: str):
    ths = [T + t for t in THEOREMS_BY_PROP.get(prop, [])]
    if not ths and not MPU_BY_PROP.get(prop):
        return []
    if not ths:
        return [_compose.Part("mpu", lambda ctx: None, None, theorems=MPU_BY_PROP[prop], modules=LEAN_MODULES_MPU)]

    def run(ctx):
        mp_trace.run_kt(ctx, prop, 150, 4000)

    def replay(ctx, payload):
        return mp_trace.replay_kt(payload.get("input", payload.get("case")))

    out = [_compose.Part("mp_kt", run, replay, theorems=ths, modules=LEAN_MODULES)]
    if MPU_BY_PROP.get(prop):
        out.append(_compose.Part("mpu", lambda ctx: None, None, theorems=MPU_BY_PROP[prop], modules=LEAN_MODULES_MPU))
    return out
