"""Parts contributed by the multi-process protocol model (harness/props/mp_trace.py, lean Model/MP.lean)."""
from __future__ import annotations

from . import _compose, mp_trace

LEAN_MODULES = ["TorchDataVerif.Props.MP"]
T = "TDV.MP."
THEOREMS_BY_PROP = {
    "C01": ["snapshot_fields", "snapshot_fields_map", "snapshot_fields_map_errFree", "take_snapshot_assertion_holds_map",
            "delta_at_yield_map", "deterministic"],
    "C03": ["yields_prefix_ref", "yields_prefix_ref_map", "yields_prefix_ref_iter", "epoch_complete", "epoch_complete_map",
            "epoch_complete_iter", "progress", "progress_map", "variant_map", "variant_iter"],
    "C05": ["deterministic", "deterministic_map", "deterministic_iter", "snapshot_fields", "snapshot_fields_map",
            "snapshot_fields_map_errFree", "take_snapshot_assertion_holds_map", "delta_at_yield_map", "yields_prefix_ref"],
    "C09": ["kill_safe", "kill_safe_map", "kill_detected", "progress"],
    # full strength since repo fix f1014eb (map-style snapshots are triggered by the task that carries the main snapshot);
    # `c10a` (the former negation witness) is a regression `example`, replayed by mp_trace.replay_c10a
    "C10": ["error_position_map", "error_position", "error_position_prefix_iter", "take_snapshot_assertion_holds_map",
            "snapshot_fields_map"],
    "C16": [],
    "C17": [],
}
# Props/C05Iter.lean (namespace TDV.MP): delta_at_yield / snapshot_fields for iterable datasets; the unrestricted
# delta_at_yield statement is refuted (witness c05i: W=3, P=1, interval 8, shards 2/0/2), tied to the code by the MP K-T leg
LEAN_MODULES_C05ITER = ["TorchDataVerif.Props.C05Iter"]
_C05ITER = [T + n for n in ("delta_at_yield_iter", "delta_at_yield_iter_partial", "delta_at_yield_iter_false",
                            "snapshot_fields_iter", "snapshot_fields_iter_det", "c05iA_state", "c05iB_state")]
C05ITER_BY_PROP = {"C05": list(_C05ITER), "C07": [T + "delta_at_yield_iter", T + "delta_at_yield_iter_partial"]}
try:
    from . import mpu_parts as _mpu
    LEAN_MODULES_MPU = list(_mpu.LEAN_MODULES)
    MPU_BY_PROP = dict(_mpu.THEOREMS_BY_PROP)
except ImportError:
    LEAN_MODULES_MPU, MPU_BY_PROP = [], {}
# theorems added by the model's author after this table was written are picked up if mp_trace exports them
try:
    for k, v in getattr(mp_trace, "THEOREMS_BY_PROP", {}).items():
        for t in v:
            t = t.replace(T, "")
            if t not in THEOREMS_BY_PROP.setdefault(k, []):
                THEOREMS_BY_PROP[k].append(t)
except Exception:
    pass


def parts(prop: str):
    ths = [T + t for t in THEOREMS_BY_PROP.get(prop, [])]
    if not ths and not MPU_BY_PROP.get(prop):
        return []
    if not ths:
        return [_compose.Part("mpu", lambda ctx: None, None, theorems=MPU_BY_PROP[prop], modules=LEAN_MODULES_MPU)]

    def run(ctx):
        mp_trace.run_kt(ctx, prop, 150, 4000)

    def replay(ctx, payload):
        return mp_trace.replay_kt(payload.get("input", payload.get("case")))

    out = [_compose.Part("mp_kt", run, replay, theorems=ths, modules=LEAN_MODULES)]
    if C05ITER_BY_PROP.get(prop):
        out.append(_compose.Part("c05iter", lambda ctx: None, None, theorems=C05ITER_BY_PROP[prop], modules=LEAN_MODULES_C05ITER))
    if MPU_BY_PROP.get(prop):
        out.append(_compose.Part("mpu", lambda ctx: None, None, theorems=MPU_BY_PROP[prop], modules=LEAN_MODULES_MPU))
    return out
