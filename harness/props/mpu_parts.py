"""Theorems contributed by lean Props/MPU.lean (MP model beyond one in-order epoch: persistent workers across
resets, in_order=False, and the snapshot-window argument for iterable datasets).  No Python legs of their own: the
K-T leg of mp_trace.py already generates in_order=False cases and persistent / mid-epoch-reset cases."""
from __future__ import annotations

LEAN_MODULES = ["TorchDataVerif.Props.MPU"]
T = "TDV.MPU."
THEOREMS_BY_PROP = {
    "C03": [T + n for n in (
        "unordered_safe", "unordered_complete", "unordered_safe_map", "unordered_complete_map",
        "unordered_safe_iter", "unordered_complete_iter", "take_snapshot_assertion_holds_unordered", "exU_observed",
        "multi_epoch_prefix", "multi_epoch_complete", "multi_epoch_unordered", "epoch_fresh", "no_stale_yield")],
    "C17": [T + n for n in ("reset_fresh", "workers_constant", "no_stale_yield", "epoch_fresh")],
    "C10": [T + n for n in ("take_snapshot_assertion_holds_iter", "error_position_iter",
                            "take_snapshot_assertion_holds_unordered", "exU_observed")],
    "C05": [T + n for n in ("take_snapshot_assertion_holds_iter",)],
}
