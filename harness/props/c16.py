"""C16 - oracle: harness/props/sdl_ko.py (check_c16) on the real StatefulDataLoader under the virtual scheduler;
theorems and correspondence legs come from the SP / MP model parts."""
from __future__ import annotations

from . import _compose, sdl_ko

RULE = 'all 20 ordered pairs (saving num_workers, loading num_workers) in 0..4, checkpoint after k in {0,1,2,3,5} batches, all dataset kinds: empty dict is a no-op, mismatching state is rejected with an error before any data, no virtual worker process survives the rejection, a later valid load works. Every case is non-trivial; distinct by (configuration, pair, k).'
EXPLANATION = 'Decision logic of the constructors; Lean: TDV.MP / TDV.SP constructor models reject_mismatch (see Props). Oracle: every ordered pair on the real loader; worker release checked on the virtual process table (GC-driven clean-up is CPython behaviour, sampled not proved).'
ASSUMPTIONS = ["worker processes are virtual processes under harness/vsched.py (real _worker_loop, deep-copied arguments, pickled queue payloads)"]

PARTS = [_compose.ko_part("ko", sdl_ko.gen_c16, sdl_ko.check_c16, 80, 1200, known=None)]

from . import ctor_kd
PARTS.append(_compose.Part("ctor_kd", ctor_kd.run_kd, ctor_kd.replay_kd, theorems=ctor_kd.THEOREMS, modules=ctor_kd.LEAN_MODULES))
try:
    from . import mp_parts
    PARTS += mp_parts.parts("C16")
except ImportError:
    pass
_compose.assemble(globals(), PARTS, RULE, EXPLANATION, ASSUMPTIONS)
