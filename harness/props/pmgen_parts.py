"""Theorems contributed by the ParallelMapper generation layer `Gen2` (lean Proofs/PMGen2*.lean, Props/PMGen.lean):
who is inside the source node across reset() (C12, second half) and what abandoned generations can still do (C17).

No Python legs of its own: pm_trace.py already counts and skips the two-threads-in-source traces in K-T and its
oracle reports them as `C12:two_threads_in_source`.
"""
from __future__ import annotations

from . import _compose

LEAN_MODULES = ["TorchDataVerif.Props.PMGen"]

THEOREMS_BY_PROP = {
    "C12": [
        "TDV.PM.gen2_refines_gen",
        "TDV.PM.reset_overlaps_old_reader_witness",
        "TDV.PM.state_dict_overlaps_old_reader_witness",
        "TDV.PM.two_drivers_witness",
        "TDV.PM.single_driver_statement_false",
        "TDV.PM.single_driver_partial",
        "TDV.PM.single_driver_partial_weak",
        "TDV.PM.old_generation_silent",
        "TDV.PM.abandoned_generations_silent",
        "TDV.PM.workers_sorter_never_touch_source",
        "TDV.PM.old_cannot_deliver_to_new",
    ],
    "C17": [
        "TDV.PM.gen2_refines_gen",
        "TDV.PM.joined_reader_exited",
        "TDV.PM.old_generation_silent",
        "TDV.PM.abandoned_generations_silent",
        "TDV.PM.workers_sorter_never_touch_source",
        "TDV.PM.old_cannot_deliver_to_new",
        "TDV.PM.new_cannot_deliver_to_old",
        "TDV.PM.old_only_run_keeps_cur",
        "TDV.PM.shutdown_never_blocked",
    ],
}

# the full-strength statement that is refuted on the current code, and the run that refutes it (Lean names)
REFUTED = {"C12": {"statement": "TDV.PM.single_driver_statement", "negation": "TDV.PM.single_driver_statement_false",
                   "witness_run": "TDV.PM.twoDriversRun", "partial": "TDV.PM.single_driver_partial"}}


def parts(prop: str):
    ths = THEOREMS_BY_PROP.get(prop, [])
    if not ths:
        return []
    return [_compose.Part("pmgen", lambda ctx: None, None, theorems=ths, modules=LEAN_MODULES)]
