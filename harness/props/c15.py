"""C15 — stateful samplers resume exactly and keep torch sampler semantics.

Legs
  kd_random   K-D: real `RandomSampler`/`_StatefulRandomSamplerIterator` vs Lean `TDV.Sampler.RIter` on op scripts
              (fresh sampler / iter / next / state_dict / load_state_dict / generator position).  torch's RNG is an
              oracle: the draws `randperm`/`randint` return for the seeded generator are recorded and replayed by
              the model; a generator state is identified with the number of draws consumed.
  kd_batch    K-D: real `BatchSampler`/`_BatchSamplerIterator` over a RandomSampler, a StatefulDistributedSampler
              or a plain list vs `TDV.Sampler.BIter`.
  kd_dist     K-D: real `StatefulDistributedSampler` vs `TDV.Sampler.DWorld` (eager `__iter__`, lazily started generator
              body, set_epoch / load_state_dict before or after iter()), and
              the model's index arithmetic vs `torch.utils.data.distributed.DistributedSampler`.
  ko_random   K-O: resume exactness, following epoch, chains of two resumes, permutation / count semantics.
  ko_batch    K-O: batches == torch.utils.data.BatchSampler's, resume at every batch boundary.
  ko_dist     K-O: index lists == torch DistributedSampler's for every rank; resume at every k; following epoch.
"""
from __future__ import annotations

import copy
from typing import Any, Dict, List, Optional, Tuple

from ..core import Ctx
from ..leanbridge import Driver

THEOREMS = [
    "TDV.Sampler.random_epoch_blocks",
    "TDV.Sampler.random_epoch_perm",
    "TDV.Sampler.random_with_replacement_len",
    "TDV.Sampler.random_resume_exact",
    "TDV.Sampler.random_resume_remaining",
    "TDV.Sampler.random_next_epoch_unaffected",
    "TDV.Sampler.batch_eq_chunk",
    "TDV.Sampler.batch_resume_exact",
    "TDV.Sampler.batch_resume_random",
    "TDV.Sampler.batch_resume_plain",
    "TDV.Sampler.batch_resume_dist",
    "TDV.Sampler.dist_len",
    "TDV.Sampler.dist_get",
    "TDV.Sampler.dist_partition",
    "TDV.Sampler.dist_epoch",
    "TDV.Sampler.dist_resume_exact",
    "TDV.Sampler.dist_following_epoch",
]
LEAN_MODULES = ["TorchDataVerif.Props.C15"]
RULE = ("sizes n in 0..80 biased to 0,1,31,32,33,63,64,65; num_samples below, at and above n (several permutations) and "
        "around the 32-draw chunk boundaries with replacement; batch sizes 1..9 and 32; both drop_last; replicas 1..5 with "
        "every rank; shuffle on/off, seeds, epochs; every interruption point for small cases, boundary-biased samples for "
        "larger ones. A case is one (configuration, interruption point); it is non-trivial when at least one index lies "
        "before and one after the interruption point, or (for pure semantics cases) the epoch has at least two indices, or it "
        "is one of the dedicated probes of the two once-defective points of StatefulDistributedSampler (state right after "
        "iter() on a re-used object / right after a resume) on a non-empty epoch; distinct by configuration and "
        "interruption point.")
EXPLANATION = ("Lean: closed form of a random epoch (whole draws then a prefix), resume = exact state equality for the random "
               "iterator and for the batch iterator over a random / plain sampler, batches = torch's chunking of the index stream, "
               "distributed index arithmetic (length, position formula, partition) and yielded/next_yielded bookkeeping with "
               "exact resume at every interruption point incl. right after iter(). Tie: op scripts on the real classes vs the model "
               "with recorded torch draws; property oracle on the real classes incl. equality with torch's BatchSampler / "
               "DistributedSampler; the two repaired stale-position inputs are corpus witnesses.")
ASSUMPTIONS = [
    "torch.Generator/randperm/randint are an oracle: draws are recorded from torch and replayed by the model; a generator "
    "state is identified with the number of draws consumed (states that torch leaves unchanged are identified)",
    "math.ceil of float divisions in DistributedSampler is modelled by exact integer arithmetic (sizes far below 2**53)",
    "the nested sampler of a plain BatchSampler is deterministic (re-iterating gives the same stream)",
    "one live iterator per sampler object (a second iter() on a StatefulDistributedSampler resets the shared `yielded` "
    "that an unstarted first iterator would read; modelled, not part of the property)",
]

BIASED_N = [0, 1, 31, 32, 33, 63, 64, 65]


# ------------------------------------------------------------------------------------------------
# torch RNG oracle


class Oracle:
    """Recorded draws of one seeded generator; state <-> draw index."""

    _cache: Dict[Tuple[int, int, bool], "Oracle"] = {}

    @classmethod
    def get(cls, seed: int, n: int, repl: bool) -> "Oracle":
        key = (seed, n, repl)
        if key not in cls._cache:
            if len(cls._cache) > 400:
                cls._cache.clear()
            cls._cache[key] = Oracle(seed, n, repl)
        return cls._cache[key]

    def __init__(self, seed, n, repl):
        import torch
        self.n, self.repl = n, repl
        self.g = torch.Generator()
        self.g.manual_seed(seed)
        self.states = [self.g.get_state()]
        self.draws: List[List[int]] = []
        self.keys: Dict[bytes, int] = {self.states[0].numpy().tobytes(): 0}
        self.canon = [0]
        self.extend(6)

    def extend(self, count):
        import torch
        for _ in range(count):
            if self.repl:
                d = torch.randint(high=self.n, size=(32,), dtype=torch.int64, generator=self.g).tolist()
            else:
                d = torch.randperm(self.n, generator=self.g).tolist()
            self.draws.append(d)
            s = self.g.get_state()
            self.states.append(s)
            b = s.numpy().tobytes()
            self.keys.setdefault(b, len(self.states) - 1)
            self.canon.append(self.keys[b])

    def state(self, i):
        while i >= len(self.states):
            self.extend(8)
        return self.states[i].clone()

    def index(self, state) -> int:
        b = state.numpy().tobytes()
        for _ in range(40):
            if b in self.keys:
                return self.keys[b]
            self.extend(8)
        return -1

    def ensure_for(self, ops):
        """enough recorded draws for any run of `ops` (every iter/load draws once, a next draws once per block)."""
        block = 32 if self.repl else max(self.n, 1)
        creates = sum(1 for o in ops if o[0] in ("iter", "load"))
        nexts = sum(1 for o in ops if o[0] == "next")
        start = max([o[1] for o in ops if o[0] == "fresh" and len(o) > 1] + [0])
        need = start + 2 * creates + nexts // block + 3
        if need > len(self.draws):
            self.extend(need - len(self.draws))
        return self.draws[:need]

    def canon_index(self, i: int) -> int:
        while i >= len(self.canon):
            self.extend(8)
        return self.canon[i]


def _outcome_next(it):
    try:
        v = next(it)
    except StopIteration:
        return ["stop"]
    except IndexError:
        return ["err"]
    return ["item", int(v)]


# ------------------------------------------------------------------------------------------------
# real-code interpreters of op scripts (one per kind).  `do(op)` executes one op and returns its observation.


class RandomReal:
    def __init__(self, cfg):
        self.cfg = cfg
        self.orc = Oracle.get(cfg["seed"], cfg["n"], cfg["repl"])
        self.gen = self.sampler = self.it = None
        self.dead = False

    def do(self, op):
        import torch
        from torchdata.stateful_dataloader.sampler import RandomSampler
        c = self.cfg
        nm = op[0]
        if nm == "fresh":
            self.gen = torch.Generator()
            self.gen.set_state(self.orc.state(op[1]))
            self.sampler = RandomSampler(range(c["n"]), replacement=c["repl"], num_samples=c["ns"], generator=self.gen)
            self.it = None
            return None
        if nm == "iter":
            self.it = iter(self.sampler)
            return None
        if nm == "next":
            o = _outcome_next(self.it)
            if o[0] == "err":
                self.dead = True
            return o
        if nm == "state":
            sd = self.it.state_dict()
            return [sd["yielded"], self.orc.index(sd["generator"])]
        if nm == "load":
            try:
                self.it.load_state_dict({"yielded": op[1], "generator": self.orc.state(op[2])})
            except (StopIteration, IndexError):
                self.dead = True
                return "raise"
            return "ok"
        if nm == "gen":
            return self.orc.index(self.gen.get_state())
        raise ValueError(op)

    def request(self, ops):
        c = self.cfg
        return {"m": "sampler", "kind": "random", "n": c["n"], "repl": c["repl"], "ns": c["ns"],
                "draws": self.orc.ensure_for(ops), "ops": ops}

    def canon_obs(self, op, o):
        if op[0] == "state" and isinstance(o, list):
            return [o[0], self.orc.canon_index(o[1])]
        if op[0] == "gen" and isinstance(o, int):
            return self.orc.canon_index(o)
        return o


def dist_shuf(cfg, e) -> List[int]:
    import torch
    if cfg["shuffle"]:
        g = torch.Generator()
        g.manual_seed(cfg["seed"] + e)
        return torch.randperm(cfg["n"], generator=g).tolist()
    return list(range(cfg["n"]))


class DistReal:
    def __init__(self, cfg):
        self.cfg = cfg
        self.sampler = self.it = None
        self.epochs = set([0])
        self.dead = False

    def _new(self):
        from torchdata.stateful_dataloader.sampler import StatefulDistributedSampler
        c = self.cfg
        return StatefulDistributedSampler(range(c["n"]), num_replicas=c["replicas"], rank=c["rank"], shuffle=c["shuffle"],
                                          seed=c["seed"], drop_last=c["dl"])

    def do(self, op):
        nm = op[0]
        if nm == "fresh":
            self.sampler = self._new()
            self.it = None
            return None
        if nm == "epoch":
            self.sampler.set_epoch(op[1])
            self.epochs.add(op[1])
            return None
        if nm == "iter":
            self.it = iter(self.sampler)
            return None
        if nm == "next":
            return _outcome_next(self.it)
        if nm == "state":
            return self.sampler.state_dict()["yielded"]
        if nm == "load":
            self.sampler.load_state_dict({"yielded": op[1]})
            return None
        raise ValueError(op)

    def request(self, ops):
        c = self.cfg
        return {"m": "sampler", "kind": "dist", "n": c["n"], "replicas": c["replicas"], "rank": c["rank"], "dl": c["dl"],
                "shuf": [[e, dist_shuf(c, e)] for e in sorted(self.epochs)], "ops": ops}

    def canon_obs(self, op, o):
        return o


class BatchReal:
    """cfg["nested"] in random|dist|plain; nested fields as in RandomReal / DistReal; plain: cfg["xs"]."""

    def __init__(self, cfg):
        self.cfg = cfg
        self.kind = cfg["nested"]
        self.orc = Oracle.get(cfg["seed"], cfg["n"], cfg["repl"]) if self.kind == "random" else None
        self.gen = self.sampler = self.bs = self.it = None
        self.epochs = set([0])
        self.dead = False

    def do(self, op):
        import torch
        from torchdata.stateful_dataloader.sampler import BatchSampler, RandomSampler
        c = self.cfg
        nm = op[0]
        if nm == "fresh":
            if self.kind == "random":
                self.gen = torch.Generator()
                self.gen.set_state(self.orc.state(op[1]))
                self.sampler = RandomSampler(range(c["n"]), replacement=c["repl"], num_samples=c["ns"], generator=self.gen)
            elif self.kind == "dist":
                self.sampler = DistReal._new(self)
            else:
                self.sampler = list(c["xs"])
            self.bs = BatchSampler(self.sampler, c["bs"], c["bdl"])
            self.it = None
            return None
        if nm == "epoch":
            self.sampler.set_epoch(op[1])
            self.epochs.add(op[1])
            return None
        if nm == "iter":
            self.it = iter(self.bs)
            return None
        if nm == "next":
            try:
                b = next(self.it)
            except StopIteration:
                return ["stop"]
            except IndexError:
                self.dead = True
                return ["err"]
            return ["batch", [int(x) for x in b]]
        if nm == "state":
            sd = self.it.state_dict()
            s = sd["sampler_state"]["yielded"] if "sampler_state" in sd else None
            t = None
            if "sampler_iter_state" in sd:
                t = [sd["sampler_iter_state"]["yielded"], self.orc.index(sd["sampler_iter_state"]["generator"])]
            return [sd["samples_yielded"], s, t]
        if nm == "load":
            sy, s, t = op[1]
            sd: Dict[str, Any] = {"samples_yielded": sy}
            if s is not None:
                sd["sampler_state"] = {"yielded": s}
            if t is not None:
                sd["sampler_iter_state"] = {"yielded": t[0], "generator": self.orc.state(t[1])}
            try:
                self.it.load_state_dict(sd)
            except (StopIteration, IndexError):
                self.dead = True
                return "raise"
            return "ok"
        if nm == "gen":
            return self.orc.index(self.gen.get_state())
        raise ValueError(op)

    def request(self, ops):
        c = self.cfg
        r = {"m": "sampler", "kind": "batch", "nested": self.kind, "bs": c["bs"], "bdl": c["bdl"], "ops": ops}
        if self.kind == "random":
            draws = self.orc.ensure_for(ops + [["next"]] * (c["bs"] * sum(1 for o in ops if o[0] == "next")))
            r.update({"n": c["n"], "repl": c["repl"], "ns": c["ns"], "draws": draws})
        elif self.kind == "dist":
            # "dl" is the distributed sampler's drop_last, "bdl" the batch sampler's
            r.update({"n": c["n"], "replicas": c["replicas"], "rank": c["rank"], "dl": c["dl"],
                      "shuf": [[e, dist_shuf(c, e)] for e in sorted(self.epochs)]})
        else:
            r["xs"] = list(c["xs"])
        return r

    def canon_obs(self, op, o):
        if op[0] == "state" and isinstance(o, list) and o[2] is not None:
            return [o[0], o[1], [o[2][0], self.orc.canon_index(o[2][1])]]
        if op[0] == "gen" and isinstance(o, int):
            return self.orc.canon_index(o)
        return o


REAL = {"random": RandomReal, "dist": DistReal, "batch": BatchReal}


class Script:
    """Builds an op script while executing it on the real classes (loads can then use observed states)."""

    def __init__(self, kind, cfg):
        self.kind, self.cfg = kind, cfg
        self.real = REAL[kind](cfg)
        self.ops: List[Any] = []
        self.obs: List[Any] = []

    def do(self, *op):
        op = list(op)
        if self.real.dead:
            return None
        o = _do_guarded(self.real, op)
        self.ops.append(op)
        self.obs.append(o)
        return o

    def desc(self):
        return {"kind": self.kind, "cfg": self.cfg, "ops": self.ops}


def _do_guarded(real, op):
    """an exception the interpreters do not expect from the code under test becomes an observation (the model has none)"""
    try:
        return real.do(op)
    except Exception as e:  # noqa: BLE001
        from ..core import raised_in_code_under_test
        if not raised_in_code_under_test(e):
            raise
        real.dead = True
        return ["uncaught", type(e).__name__]


def run_script_real(desc):
    real = REAL[desc["kind"]](desc["cfg"])
    obs = []
    for op in desc["ops"]:
        obs.append(_do_guarded(real, op))
        if real.dead:
            break
    return real, obs


def compare_script(real, ops, obs, ans) -> Optional[str]:
    if "error" in ans:
        return "model driver error: " + str(ans["error"])
    if ans.get("oob"):
        return "model asked for a draw beyond the recorded oracle"
    mobs = ans["obs"]
    for i, (op, o) in enumerate(zip(ops, obs)):
        if i >= len(mobs):
            return f"model answered {len(mobs)} observations for {len(ops)} ops"
        a, b = real.canon_obs(op, o), real.canon_obs(op, mobs[i])
        if a != b:
            return f"op {i} {op}: impl={a} model={b} (ops so far {ops[max(0, i - 6):i + 1]})"
    return None


# ------------------------------------------------------------------------------------------------
# case generators


def pick_n(rng, lo=0, hi=80):
    if rng.random() < 0.45:
        c = [x for x in BIASED_N if lo <= x <= hi]
        if c:
            return rng.choice(c)
    return rng.randrange(lo, hi + 1)


def pick_ks(rng, total, block, limit_all=14, sampled=6):
    """interruption points in 0..total: all when small, else boundary-biased sample."""
    if total <= limit_all:
        return list(range(total + 1))
    cand = {0, 1, total - 1, total}
    if block > 0:
        for m in range(1, total // block + 1):
            cand.update(x for x in (m * block - 1, m * block, m * block + 1) if 0 <= x <= total)
    cand = sorted(cand)
    ks = set(rng.sample(cand, min(len(cand), sampled - 2)))
    while len(ks) < sampled:
        ks.add(rng.randrange(total + 1))
    return sorted(ks)


def gen_random_cfg(rng) -> Dict[str, Any]:
    repl = rng.random() < 0.4
    n = pick_n(rng, 1)
    r = rng.random()
    if repl:
        ns = rng.choice([1, 5, 31, 32, 33, 40, 63, 64, 65, 70, 96, 97]) if r < 0.8 else rng.randrange(1, 100)
    else:
        if r < 0.35:
            ns = n
        elif r < 0.5:
            ns = rng.randrange(1, n + 1)
        else:
            ns = rng.choice([n + 1, 2 * n - 1, 2 * n, 2 * n + 1, 3 * n, 3 * n + 2, n + rng.randrange(1, 2 * n + 2)])
            ns = max(1, min(ns, 200))
    return {"n": n, "repl": repl, "ns": ns, "seed": rng.randrange(6)}


def script_random_resume(rng, cfg, ks) -> Tuple[Script, List[int]]:
    s = Script("random", cfg)
    ns = cfg["ns"]
    s.do("fresh", 0)
    s.do("iter")
    states = []
    for i in range(ns):
        states.append(s.do("state"))
        s.do("next")
    states.append(s.do("state"))
    s.do("next")
    gend = s.do("gen")
    s.do("iter")
    for _ in range(min(ns, 3)):
        s.do("next")
    for k in ks:
        if s.real.dead:
            break
        st = states[k]
        j = rng.choice([0, 0, 1, 2, gend if isinstance(gend, int) and gend >= 0 else 0])
        s.do("fresh", j)
        s.do("iter")
        s.do("load", st[0], st[1])
        s.do("state")
        for _ in range(ns - k + 1):
            s.do("next")
        s.do("gen")
        s.do("iter")
        for _ in range(min(ns, 3)):
            s.do("next")
        s.do("gen")
    return s, ks


def script_random_ops(rng, cfg, steps) -> Script:
    """arbitrary op sequences, including loads into non-fresh iterators (perm_index/yielded are not reset)."""
    s = Script("random", cfg)
    s.do("fresh", 0)
    s.do("iter")
    saved = []
    for _ in range(steps):
        if s.real.dead:
            break
        r = rng.random()
        if r < 0.5:
            s.do("next")
        elif r < 0.65:
            saved.append(s.do("state"))
        elif r < 0.8 and saved:
            st = rng.choice(saved)
            s.do("load", st[0], st[1])
        elif r < 0.88:
            s.do("iter")
        elif r < 0.93:
            s.do("fresh", rng.randrange(3))
            s.do("iter")
        else:
            s.do("gen")
    s.do("gen")
    return s


def gen_dist_cfg(rng) -> Dict[str, Any]:
    n = pick_n(rng, 0, 80) if rng.random() < 0.6 else rng.randrange(0, 14)
    replicas = rng.randrange(1, 6)
    return {"n": n, "replicas": replicas, "rank": rng.randrange(replicas), "shuffle": rng.random() < 0.6,
            "seed": rng.randrange(4), "dl": rng.random() < 0.5}


def dist_num_samples(cfg):
    import math
    n, r = cfg["n"], cfg["replicas"]
    if cfg["dl"] and n % r != 0:
        return math.ceil((n - r) / r)
    return math.ceil(n / r)


def script_dist(rng, cfg, e, ks) -> Script:
    s = Script("dist", cfg)
    m = dist_num_samples(cfg)
    s.do("fresh")
    if rng.random() < 0.5:
        s.do("epoch", e)
        s.do("iter")
    else:  # set_epoch between iter() and the first next(): the body reads the epoch at the first next
        s.do("iter")
        s.do("epoch", e)
    states = []
    for i in range(m):
        states.append(s.do("state"))
        s.do("next")
    states.append(s.do("state"))
    s.do("next")
    s.do("state")
    # the same object, following epoch: state between iter() and the first next() is observed as well
    s.do("epoch", e + 1)
    s.do("iter")
    s.do("state")
    for _ in range(min(m, 3) + (1 if m <= 3 else 0)):
        s.do("next")
    s.do("state")
    for k in ks:
        s.do("fresh")
        order = rng.randrange(3)
        if order == 0:
            s.do("epoch", e); s.do("load", states[k]); s.do("iter")
        elif order == 1:
            s.do("load", states[k]); s.do("epoch", e); s.do("iter")
        else:  # load after iter(): the unstarted generator picks next_yielded up at its first next
            s.do("iter"); s.do("epoch", e); s.do("load", states[k])
        for _ in range(m - k + 1):
            s.do("next")
        s.do("state")
        s.do("epoch", e + 1)
        s.do("iter")
        for _ in range(min(m, 2)):
            s.do("next")
        s.do("state")
    return s


def gen_batch_cfg(rng) -> Dict[str, Any]:
    kind = rng.choice(["random", "random", "dist", "plain"])
    bs = rng.choice([1, 2, 3, 4, 5, 7, 8, 9, 32]) if rng.random() < 0.9 else rng.randrange(1, 40)
    cfg: Dict[str, Any] = {"nested": kind, "bs": bs, "bdl": rng.random() < 0.5}
    if kind == "random":
        cfg.update(gen_random_cfg(rng))
        if cfg["ns"] > 100:
            cfg["ns"] = 100
    elif kind == "dist":
        cfg.update(gen_dist_cfg(rng))
    else:
        n = pick_n(rng, 0, 40)
        cfg["xs"] = [rng.randrange(100) for _ in range(n)]
    return cfg


def batch_stream_len(cfg) -> int:
    if cfg["nested"] == "random":
        return cfg["ns"]
    if cfg["nested"] == "dist":
        return dist_num_samples(cfg)
    return len(cfg["xs"])


def batch_count(cfg) -> int:
    L, bs = batch_stream_len(cfg), cfg["bs"]
    return L // bs if cfg["bdl"] else (L + bs - 1) // bs


def script_batch(rng, cfg, js) -> Script:
    s = Script("batch", cfg)
    nb = batch_count(cfg)
    s.do("fresh", 0)
    if cfg["nested"] == "dist":
        s.do("epoch", 1)
    s.do("iter")
    states = []
    for i in range(nb):
        states.append(s.do("state"))
        s.do("next")
    states.append(s.do("state"))
    s.do("next")                      # StopIteration
    after_stop = s.do("state")
    if cfg["nested"] == "random":
        s.do("gen")
    # following epoch on the same objects; state before its first batch is observed too
    if cfg["nested"] == "dist":
        s.do("epoch", 2)
    s.do("iter")
    s.do("state")
    for _ in range(min(nb, 2)):
        s.do("next")
    for j in js:
        if s.real.dead:
            break
        st = states[j] if j <= nb else after_stop
        s.do("fresh", rng.randrange(3))
        if cfg["nested"] == "dist":
            s.do("epoch", 1)
        s.do("iter")
        s.do("load", st)
        s.do("state")
        for _ in range(nb - min(j, nb) + 1):
            s.do("next")
        s.do("state")
        if cfg["nested"] == "random":
            s.do("gen")
        if cfg["nested"] == "dist":
            s.do("epoch", 2)
        s.do("iter")
        for _ in range(min(nb, 2)):
            s.do("next")
    return s


# ------------------------------------------------------------------------------------------------
# K-O oracles on the real classes.  Each takes a small explicit input dict and returns None or a message.


def _mk_random(cfg, seed):
    import torch
    from torchdata.stateful_dataloader.sampler import RandomSampler
    g = torch.Generator()
    g.manual_seed(seed)
    return RandomSampler(range(cfg["n"]), replacement=cfg["repl"], num_samples=cfg["ns"], generator=g)


def oracle_random_semantics(inp) -> Optional[str]:
    """per epoch: without replacement whole permutations of range(n) then a duplicate-free prefix, exactly
    num_samples indices; with replacement exactly num_samples indices in range."""
    n, ns = inp["n"], inp["ns"]
    s = _mk_random(inp, inp["seed"])
    for ep in range(2):
        xs = list(s)
        if len(xs) != ns:
            return f"epoch {ep}: {len(xs)} indices, num_samples={ns}"
        if any((not isinstance(x, int)) or x < 0 or x >= n for x in xs):
            return f"epoch {ep}: index out of range in {xs[:10]}"
        if not inp["repl"]:
            for b in range(0, ns, n):
                blk = xs[b:b + n]
                if len(blk) == n and sorted(blk) != list(range(n)):
                    return f"epoch {ep}: block {b // n} is not a permutation of range({n}): {blk[:12]}"
                if len(set(blk)) != len(blk):
                    return f"epoch {ep}: repeated index inside block {b // n}: {blk[:12]}"
        if len(s) != ns:
            return f"len(sampler)={len(s)} != num_samples={ns}"
    return None


def oracle_random_resume(inp) -> Optional[str]:
    """state after k (and, chained, after k2 more) into fresh samplers -> remaining and following epoch equal."""
    k, k2 = inp["k"], inp.get("k2")
    s0 = _mk_random(inp, inp["seed"])
    it0 = iter(s0)
    disturbed = False
    if inp.get("disturb") and getattr(s0, "generator", None) is not None:
        # the sampler's generator is used by someone else (a second sampler sharing it, the loader's base seed...) between
        # iter() and the first index: the state the iterator reports must still reproduce ITS sequence
        import torch
        torch.randint(0, 1000, (inp["disturb"],), generator=s0.generator)
        disturbed = True
    head = [next(it0) for _ in range(k)]
    sd = copy.deepcopy(it0.state_dict())
    rest = list(it0)
    following = list(s0)
    s1 = _mk_random(inp, inp["seed2"])
    for _ in range(inp.get("pre_draws", 0)):  # the fresh sampler's generator may be anywhere
        list(s1)
    it1 = iter(s1)
    it1.load_state_dict(copy.deepcopy(sd))
    if k2 is None:
        got = list(it1)
        if got != rest:
            return f"resume at k={k}: remaining {got[:12]}.. (len {len(got)}) != uninterrupted {rest[:12]}.. (len {len(rest)})"
        f1 = list(s1)
        if f1 != following and not disturbed:  # (the foreign draws are not part of the iterator's state)
            return f"resume at k={k}: following epoch differs: {f1[:10]} vs {following[:10]}"
        return None
    k2 = min(k2, len(rest))
    mid = [next(it1) for _ in range(k2)]
    if mid != rest[:k2]:
        return f"resume at k={k}: first {k2} of remaining {mid[:10]} != {rest[:10]}"
    sd2 = copy.deepcopy(it1.state_dict())
    s2 = _mk_random(inp, inp["seed2"] + 1)
    it2 = iter(s2)
    it2.load_state_dict(sd2)
    got = list(it2)
    if got != rest[k2:]:
        return f"chain k={k},k2={k2}: remaining {got[:12]} (len {len(got)}) != {rest[k2:][:12]} (len {len(rest) - k2})"
    f2 = list(s2)
    if f2 != following and not disturbed:
        return f"chain k={k},k2={k2}: following epoch differs: {f2[:10]} vs {following[:10]}"
    return None


def _mk_dist(inp, rank=None, stateful=True):
    from torch.utils.data.distributed import DistributedSampler
    from torchdata.stateful_dataloader.sampler import StatefulDistributedSampler
    cls = StatefulDistributedSampler if stateful else DistributedSampler
    return cls(range(inp["n"]), num_replicas=inp["replicas"], rank=inp["rank"] if rank is None else rank,
               shuffle=inp["shuffle"], seed=inp["seed"], drop_last=inp["dl"])


def oracle_dist_vs_torch(inp) -> Optional[str]:
    """every rank's index list equals torch's for the epoch; len() equal; union covers all indices when no drop."""
    e = inp["epoch"]
    allidx = []
    for r in range(inp["replicas"]):
        a, b = _mk_dist(inp, r, True), _mk_dist(inp, r, False)
        a.set_epoch(e)
        b.set_epoch(e)
        la, lb = list(a), list(b)
        if la != lb:
            return f"rank {r} epoch {e}: stateful {la[:12]} != torch {lb[:12]}"
        if len(a) != len(la):
            return f"rank {r}: len()={len(a)} but {len(la)} indices"
        allidx += la
    if not inp["dl"] and set(allidx) != set(range(inp["n"])):
        return f"epoch {e}: union over ranks misses indices {sorted(set(range(inp['n'])) - set(allidx))[:10]}"
    if inp["n"] % inp["replicas"] == 0 and sorted(allidx) != list(range(inp["n"])):
        return f"epoch {e}: ranks do not partition range(n)"
    return None


def oracle_dist_resume(inp) -> Optional[str]:
    """inp: cfg + epoch, k, optional k2, prev_epochs (full epochs run on the SAME object before the interrupted one)."""
    e, k, k2 = inp["epoch"], inp["k"], inp.get("k2")
    ref = _mk_dist(inp, None, False)
    ref.set_epoch(e)
    full = list(ref)
    ref.set_epoch(e + 1)
    nxt = list(ref)
    s0 = _mk_dist(inp)
    for p in range(inp.get("prev_epochs", 0)):
        s0.set_epoch(e - inp["prev_epochs"] + p)
        list(s0)
    s0.set_epoch(e)
    it0 = iter(s0)
    head = [next(it0) for _ in range(k)]
    sd = copy.deepcopy(s0.state_dict())
    rest = list(it0)
    if head + rest != full:
        return f"uninterrupted epoch {e}: {(head + rest)[:12]} != torch {full[:12]}"
    s1 = _mk_dist(inp)
    s1.set_epoch(e)
    s1.load_state_dict(copy.deepcopy(sd))
    it1 = iter(s1)
    if k2 is None:
        got = list(it1)
        if got != rest:
            return (f"resume at k={k} (prev_epochs={inp.get('prev_epochs', 0)}, state {sd}): remaining {got[:12]} (len {len(got)}) "
                    f"!= uninterrupted {rest[:12]} (len {len(rest)})")
        s1.set_epoch(e + 1)
        f1 = list(s1)
        if f1 != nxt:
            return f"resume at k={k}: following epoch {f1[:12]} != {nxt[:12]}"
        return None
    k2 = min(k2, len(rest))
    mid = [next(it1) for _ in range(k2)]
    sd2 = copy.deepcopy(s1.state_dict())
    s2 = _mk_dist(inp)
    s2.set_epoch(e)
    s2.load_state_dict(sd2)
    got = mid + list(s2)
    if got != rest:
        return f"chain k={k},k2={k2} (states {sd},{sd2}): {got[:12]} (len {len(got)}) != {rest[:12]} (len {len(rest)})"
    s2.set_epoch(e + 1)
    f2 = list(s2)
    if f2 != nxt:
        return f"chain k={k},k2={k2}: following epoch {f2[:12]} != {nxt[:12]}"
    return None


def _mk_batch(inp, seed, stateful=True):
    """returns (batch sampler, nested sampler)."""
    import torch.utils.data
    from torchdata.stateful_dataloader.sampler import BatchSampler
    kind = inp["nested"]
    if kind == "random":
        nested = _mk_random(inp, seed)
    elif kind == "dist":
        nested = _mk_dist(inp)
    elif kind == "torch_random":  # non-stateful sampler object with a deterministic stream per iter(): skip-ahead path
        nested = _ReplayingTorchRandom(inp, seed)
    else:
        nested = list(inp["xs"])
    cls = BatchSampler if stateful else torch.utils.data.BatchSampler
    return cls(nested, inp["bs"], inp["bdl"]), nested


class _ReplayingTorchRandom:
    """torch.utils.data.RandomSampler re-seeded at every iter(): a plain, non-stateful, deterministic sampler."""

    def __init__(self, inp, seed):
        self.inp, self.seed = inp, seed

    def __iter__(self):
        import torch
        import torch.utils.data
        g = torch.Generator()
        g.manual_seed(self.seed)
        return iter(torch.utils.data.RandomSampler(range(self.inp["n"]), replacement=self.inp["repl"],
                                                   num_samples=self.inp["ns"], generator=g))

    def __len__(self):
        return self.inp["ns"]


def oracle_batch(inp) -> Optional[str]:
    """batches == torch BatchSampler over the same index stream; resume after j batches (j > number of batches means
    after StopIteration) gives the remaining batches; following epoch equal."""
    import torch.utils.data
    j = inp["j"]
    ep = inp.get("epoch", 0)
    b0, n0 = _mk_batch(inp, inp["seed"])
    for p in range(inp.get("prev_epochs", 0)):
        if inp["nested"] == "dist":
            n0.set_epoch(ep - inp["prev_epochs"] + p)
        list(b0)
    if inp["nested"] == "dist":
        n0.set_epoch(ep)
    # reference stream of this epoch: a second, identical sampler (same seed / same generator position)
    bref, nref = _mk_batch(inp, inp["seed"])
    for p in range(inp.get("prev_epochs", 0)):
        if inp["nested"] == "dist":
            nref.set_epoch(ep - inp["prev_epochs"] + p)
        list(bref)
    if inp["nested"] == "dist":
        nref.set_epoch(ep)
    stream = list(nref)
    want = list(torch.utils.data.BatchSampler(stream, inp["bs"], inp["bdl"]))
    it0 = iter(b0)
    head = []
    stopped = False
    for _ in range(j):
        try:
            head.append(next(it0))
        except StopIteration:
            stopped = True
            break
    sd = copy.deepcopy(it0.state_dict())
    rest = [] if stopped else list(it0)
    if head + rest != want:
        return f"batches {(head + rest)[:6]} != torch BatchSampler's {want[:6]} over the same stream"
    if len(b0) != len(want):
        return f"len(batch_sampler)={len(b0)} but {len(want)} batches"
    if inp["nested"] == "dist":
        n0.set_epoch(ep + 1)
    following = list(b0)
    b1, n1 = _mk_batch(inp, inp["seed2"])
    if inp["nested"] == "dist":
        n1.set_epoch(ep)
    it1 = iter(b1)
    it1.load_state_dict(copy.deepcopy(sd))
    if inp.get("j2") is not None:
        # chain: j2 more batches on the resumed iterator, its state into a third, fresh batch sampler
        mid = []
        for _ in range(inp["j2"]):
            try:
                mid.append(next(it1))
            except StopIteration:
                break
        sd2 = copy.deepcopy(it1.state_dict())
        b2, n2 = _mk_batch(inp, inp["seed2"])
        if inp["nested"] == "dist":
            n2.set_epoch(ep)
        it2 = iter(b2)
        it2.load_state_dict(sd2)
        got = mid + list(it2)
        if got != rest:
            return (f"chain after {j} then {inp['j2']} batches (second state samples_yielded={sd2['samples_yielded']} "
                    f"sampler_state={sd2.get('sampler_state')}): {got[:6]} (len {len(got)}) != uninterrupted {rest[:6]} (len {len(rest)})")
        if inp["nested"] == "dist":
            n2.set_epoch(ep + 1)
        f2 = list(b2)
        if f2 != following:
            return f"chain after {j} then {inp['j2']} batches: following epoch {f2[:5]} != {following[:5]}"
        return None
    got = list(it1)
    if got != rest:
        return (f"resume after {j} batches (prev_epochs={inp.get('prev_epochs', 0)}, state keys {sorted(sd)} "
                f"samples_yielded={sd['samples_yielded']} sampler_state={sd.get('sampler_state')}): remaining {got[:6]} "
                f"(len {len(got)}) != uninterrupted {rest[:6]} (len {len(rest)})")
    if inp["nested"] == "dist":
        n1.set_epoch(ep + 1)
    f1 = list(b1)
    if f1 != following:
        return f"resume after {j} batches: following epoch {f1[:5]} != {following[:5]}"
    return None


ORACLES = {
    "random_semantics": oracle_random_semantics,
    "random_resume": oracle_random_resume,
    "dist_vs_torch": oracle_dist_vs_torch,
    "dist_resume": oracle_dist_resume,
    "batch_resume": oracle_batch,
}


def eval_oracle(ctx: Ctx, kind: str, inp: Dict[str, Any]) -> bool:
    try:
        msg = ORACLES[kind](inp)
    except Exception as e:  # the real code raised on a legal input
        msg = f"raised {type(e).__name__}: {e}"
    if msg is not None:
        ctx.fail(kind, inp, msg)
        return False
    return True


KNOWN: Dict[str, Any] = {}


# ------------------------------------------------------------------------------------------------


def _kd_leg(ctx: Ctx, leg: str, scripts: List[Tuple[Script, List[Tuple[Any, bool]]]]):
    """scripts: (script, [(case signature, nontrivial)]).  Runs the model on all of them in one batch."""
    drv = Driver()
    reqs = [s.real.request(s.ops) for s, _ in scripts]
    answers = drv.run(reqs)
    for (s, cases), ans in zip(scripts, answers):
        ctx.model_lines += len(s.ops)
        bad = compare_script(s.real, s.ops, s.obs, ans)
        for sig, nt in cases:
            ctx.case(leg, sig, nt)
        if bad is not None:
            ctx.diverge(leg, s.desc(), bad)


def run(ctx: Ctx):
    rng = ctx.rng

    # ---- K-D random ---------------------------------------------------------------------------------
    scripts = []
    for i in range(ctx.n(120, 1200)):
        cfg = gen_random_cfg(rng)
        block = 32 if cfg["repl"] else cfg["n"]
        ks = pick_ks(rng, cfg["ns"], block)
        s, ks = script_random_resume(rng, cfg, ks)
        scripts.append((s, [({"cfg": cfg, "k": k}, 0 < k < cfg["ns"]) for k in ks]))
        ctx.count("kd_random:" + ("repl" if cfg["repl"] else ("ns=n" if cfg["ns"] == cfg["n"] else ("ns>n" if cfg["ns"] > cfg["n"] else "ns<n"))))
        if i < 1:
            ctx.sample({"leg": "kd_random", "cfg": cfg, "ks": ks, "first_obs": s.obs[:8]})
    for i in range(ctx.n(80, 800)):
        cfg = gen_random_cfg(rng)
        if rng.random() < 0.7:
            cfg["n"] = rng.randrange(1, 6)
            cfg["ns"] = rng.randrange(1, 14) if not cfg["repl"] else rng.choice([3, 33, 40])
        if rng.random() < 0.1 and not cfg["repl"]:
            cfg["n"] = 0  # randperm(0) is empty: IndexError at the first next()
        s = script_random_ops(rng, cfg, rng.randrange(5, 40))
        scripts.append((s, [({"cfg": cfg, "ops": s.ops}, any(o[0] == "load" for o in s.ops))]))
        ctx.count("kd_random:ops")
    _kd_leg(ctx, "kd_random", scripts)

    # ---- K-D dist -----------------------------------------------------------------------------------
    scripts = []
    dist_meta = []
    for i in range(ctx.n(200, 2000)):
        cfg = gen_dist_cfg(rng)
        if i % 5 == 0:  # every rank of one configuration
            cfgs = [dict(cfg, rank=r) for r in range(cfg["replicas"])]
        else:
            cfgs = [cfg]
        e = rng.randrange(4)
        for c in cfgs:
            m = dist_num_samples(c)
            ks = pick_ks(rng, m, 0, limit_all=8, sampled=4)
            s = script_dist(rng, c, e, ks)
            scripts.append((s, [({"cfg": c, "e": e, "k": k}, 0 < k < m) for k in ks]))
            dist_meta.append((c, e))
            ctx.count("kd_dist:" + ("drop" if c["dl"] and c["n"] % c["replicas"] else ("pad" if c["n"] % c["replicas"] else "even")))
            if c["n"] < c["replicas"] // 2 + 1 and c["n"] > 0 and not c["dl"]:
                ctx.count("kd_dist:pad>n")
        if i < 1:
            ctx.sample({"leg": "kd_dist", "cfg": cfg, "epoch": e, "first_obs": scripts[-1][0].obs[:8]})
    drv = Driver()
    reqs = [s.real.request(s.ops) for s, _ in scripts]
    answers = drv.run(reqs)
    for (s, cases), ans, (c, e) in zip(scripts, answers, dist_meta):
        ctx.model_lines += len(s.ops)
        bad = compare_script(s.real, s.ops, s.obs, ans)
        if bad is None:
            # the model's index arithmetic against torch's DistributedSampler itself
            for ee, idx in ans.get("indices", []):
                t = _mk_dist(c, None, False)
                t.set_epoch(ee)
                lt = list(t)
                if lt != idx or len(t) != ans.get("num_samples"):
                    bad = f"epoch {ee}: torch DistributedSampler {lt[:12]} (len {len(t)}) model {idx[:12]} (num_samples {ans.get('num_samples')})"
                    break
        for sig, nt in cases:
            ctx.case("kd_dist", sig, nt)
        if bad is not None:
            ctx.diverge("kd_dist", s.desc(), bad)

    # ---- K-D batch ----------------------------------------------------------------------------------
    scripts = []
    for i in range(ctx.n(200, 2000)):
        cfg = gen_batch_cfg(rng)
        nb = batch_count(cfg)
        js = pick_ks(rng, nb + 1, 0, limit_all=7, sampled=4)  # nb+1 = after StopIteration
        s = script_batch(rng, cfg, js)
        scripts.append((s, [({"cfg": cfg, "j": j}, 0 < j < nb) for j in js]))
        ctx.count("kd_batch:" + cfg["nested"] + (":drop_last" if cfg["bdl"] else ""))
        if i < 1:
            ctx.sample({"leg": "kd_batch", "cfg": cfg, "js": js, "first_obs": s.obs[:6]})
    _kd_leg(ctx, "kd_batch", scripts)

    # ---- K-O random ---------------------------------------------------------------------------------
    for i in range(ctx.n(250, 2500)):
        cfg = gen_random_cfg(rng)
        inp = dict(cfg)
        ok = eval_oracle(ctx, "random_semantics", inp)
        ctx.case("ko_random", {"sem": inp}, cfg["ns"] >= 2)
        block = 32 if cfg["repl"] else cfg["n"]
        for k in pick_ks(rng, cfg["ns"], block, limit_all=10, sampled=5):
            inp = dict(cfg, k=k, seed2=rng.choice([cfg["seed"], cfg["seed"], 77]), pre_draws=rng.choice([0, 0, 1]))
            if rng.random() < 0.35:
                inp["k2"] = rng.randrange(0, cfg["ns"] - k + 1)
            if rng.random() < 0.3 and not cfg["repl"] and cfg["ns"] <= cfg["n"]:
                # (single-permutation epochs only: later chunks are drawn from the generator on demand, so foreign draws in
                # between legitimately change them)
                inp["disturb"] = rng.choice([1, 2, 5])
            eval_oracle(ctx, "random_resume", inp)
            ctx.case("ko_random", inp, 0 < k < cfg["ns"])
            ctx.count("ko_random:" + ("chain" if "k2" in inp else "resume"))
        if i < 1:
            ctx.sample({"leg": "ko_random", "input": inp})
    # what is true about torch.utils.data.RandomSampler with the same seed (recorded, not asserted: the property
    # only promises permutation / count semantics)
    same = diff = 0
    for i in range(ctx.n(20, 100)):
        import torch
        import torch.utils.data
        cfg = gen_random_cfg(rng)
        g = torch.Generator()
        g.manual_seed(cfg["seed"])
        t = list(torch.utils.data.RandomSampler(range(cfg["n"]), replacement=cfg["repl"], num_samples=cfg["ns"], generator=g))
        if t == list(_mk_random(cfg, cfg["seed"])):
            same += 1
        else:
            diff += 1
            ctx.count("torch_random_stream_differs:" + ("repl" if cfg["repl"] else "perm"))
    ctx.note(f"same-seed index stream equal to torch.utils.data.RandomSampler in {same} of {same + diff} configurations (informational)")

    # ---- K-O dist -----------------------------------------------------------------------------------
    for i in range(ctx.n(300, 3000)):
        cfg = gen_dist_cfg(rng)
        e = rng.randrange(5)
        inp = dict(cfg, epoch=e)
        eval_oracle(ctx, "dist_vs_torch", inp)
        ctx.case("ko_dist", {"vs": inp}, cfg["n"] >= 2)
        ranks = range(cfg["replicas"]) if i % 4 == 0 else [cfg["rank"]]
        for r in ranks:
            c = dict(cfg, rank=r)
            m = dist_num_samples(c)
            for k in pick_ks(rng, m, 0, limit_all=8, sampled=4):
                inp = dict(c, epoch=e, k=k)
                if rng.random() < 0.3:
                    inp["k2"] = rng.randrange(0, m - k + 1)
                # full epochs on the same object before the interrupted one
                if e >= 1 and rng.random() < 0.4:
                    inp["prev_epochs"] = 1
                eval_oracle(ctx, "dist_resume", inp)
                ctx.case("ko_dist", inp, 0 < k < m)
                ctx.count("ko_dist:" + ("chain" if "k2" in inp else "resume"))
        if i < 1:
            ctx.sample({"leg": "ko_dist", "input": inp})
    # interruption point "iterator of a later epoch created, nothing consumed yet" on a re-used sampler object
    for i in range(ctx.n(12, 60)):
        cfg = gen_dist_cfg(rng)
        if dist_num_samples(cfg) == 0:
            continue
        inp = dict(cfg, epoch=1 + rng.randrange(3), k=0, prev_epochs=1)
        eval_oracle(ctx, "dist_resume", inp)
        ctx.case("ko_dist", inp, True)
        ctx.count("ko_dist:epoch_start_on_reused_object")
        # interruption point "resumed, iterator created, nothing consumed yet": checkpoint right after a resume
        inp = dict(cfg, epoch=rng.randrange(3), k=rng.randrange(1, dist_num_samples(cfg) + 1), k2=0)
        eval_oracle(ctx, "dist_resume", inp)
        ctx.case("ko_dist", inp, True)
        ctx.count("ko_dist:checkpoint_right_after_resume")

    # ---- K-O batch ----------------------------------------------------------------------------------
    for i in range(ctx.n(300, 3000)):
        cfg = gen_batch_cfg(rng)
        if cfg["nested"] == "random" and rng.random() < 0.3:
            cfg["nested"] = "torch_random"
        nb = batch_count(cfg) if cfg["nested"] != "torch_random" else batch_count(dict(cfg, nested="random"))
        for j in pick_ks(rng, nb + 1, 0, limit_all=6, sampled=4):
            inp = dict(cfg, j=j, seed=cfg.get("seed", 0))
            inp["seed2"] = inp["seed"] if cfg["nested"] == "torch_random" else rng.choice([inp["seed"], 91])
            if rng.random() < 0.3:
                if nb - j >= 0:
                    inp["j2"] = rng.randrange(0, nb - j + 1)
            if cfg["nested"] == "dist":
                inp["epoch"] = rng.randrange(1, 4)
                if rng.random() < 0.4:
                    inp["prev_epochs"] = 1
            eval_oracle(ctx, "batch_resume", inp)
            ctx.case("ko_batch", inp, 0 < j < nb)
            ctx.count("ko_batch:" + cfg["nested"] + (":drop_last" if cfg["bdl"] else ""))
        if i < 1:
            ctx.sample({"leg": "ko_batch", "input": inp})
    for i in range(ctx.n(8, 40)):
        cfg = gen_batch_cfg(rng)
        cfg["nested"] = "dist"
        cfg.update(gen_dist_cfg(rng))
        cfg.pop("xs", None)
        if batch_count(cfg) == 0:
            continue
        inp = dict(cfg, j=0, seed2=0, epoch=1 + rng.randrange(3), prev_epochs=1)
        eval_oracle(ctx, "batch_resume", inp)
        ctx.case("ko_batch", inp, True)
        ctx.count("ko_batch:epoch_start_on_reused_object")
        inp = dict(cfg, j=rng.randrange(1, batch_count(cfg) + 1), j2=0, seed2=0, epoch=rng.randrange(3))
        eval_oracle(ctx, "batch_resume", inp)
        ctx.case("ko_batch", inp, True)
        ctx.count("ko_batch:checkpoint_right_after_resume")


def escalate(ctx: Ctx):
    run(ctx)


def kd_replay(desc) -> Optional[str]:
    real, obs = run_script_real(desc)
    ops = desc["ops"][:len(obs)]
    req = real.request(ops)
    ans = Driver().run([req])[0]
    return compare_script(real, ops, obs, ans)


def replay(ctx: Ctx, payload) -> Tuple[bool, str]:
    kind = payload.get("kind")
    if kind in ORACLES:
        try:
            msg = ORACLES[kind](payload["input"])
        except Exception as e:
            msg = f"raised {type(e).__name__}: {e}"
        return (msg is None), (msg or "property holds on this input")
    if kind == "no-failing-input-found":
        msgs = []
        for d in payload.get("correspondence_divergences", []):
            m = kd_replay(d["input"])
            if m is not None:
                msgs.append(m)
        return (not msgs), ("; ".join(msgs)[:600] or "model and implementation agree on the recorded scripts")
    return True, "unknown kind"
