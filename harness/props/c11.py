"""C11 - nodes thread protocols: parts from the Prefetcher (PF) and ParallelMapper (PM) protocol models: theorems over every
interleaving, trace validation of the real threads under the virtual scheduler (K-T), and oracles on the real code (K-O)."""
from __future__ import annotations

from . import _compose, pf_parts

RULE = 'pipelines with a failing source position / failing map function / exhaustion, then N extra next() calls, under random and adversarial schedules; hang = virtual-time budget of one next() exceeded. Non-trivial: an error or the end of stream was reached and at least one further next() issued; distinct by (case, schedule).'
EXPLANATION = 'Lean: PF.progress + PF.variant (every fair run of next() returns), error_after_prefix, next_after_end_prompt; PM.progress_partial with the two refuted stuck states (known findings). Tie: trace validation. Oracle: outcome of each extra next() in virtual time.'
ASSUMPTIONS = ["the real reader/worker/sorter threads run on virtual threading/queue/time primitives (harness/vsched.py); virtual time only"]

PARTS = pf_parts.parts("C11")

from . import pm_statefail
PARTS.append(_compose.Part("pm_statefail", pm_statefail.run_ko, pm_statefail.replay))
try:
    from . import pm_parts
    PARTS += pm_parts.parts("C11")
except ImportError:
    pass
_compose.assemble(globals(), PARTS, RULE, EXPLANATION, ASSUMPTIONS)
