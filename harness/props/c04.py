"""C04 — node pipelines compute exactly their sequential reference semantics.

Legs
  kd_seq    K-D: random pipelines (depth <= 4) over the real sequential operators vs the Lean model
            `TDV.Node.*` built from the same description; ops next / reset_none (several epochs, partial
            epochs, errors from map functions and ill-typed unbatching included).
  kd_thr    K-D: a few pipelines containing a Prefetcher or a threaded in-order ParallelMapper (REAL threads
            for now) vs the sequential abstraction `buffered`.
  ko_ref    K-O: items of 3 consecutive epochs (re-iterating with node.reset()) vs a pure-Python reference
            evaluator written from the documentation (nodes_common.ref_epoch); error-free pipelines.
  ko_thr    the same for a few pipelines with real threads.
"""
from __future__ import annotations

from typing import Any, Dict, List, Tuple

from ..core import Ctx
from ..leanbridge import Driver
from . import nodes_common as nc

THEOREMS = [
    "TDV.Node.listSource_denote",
    "TDV.Node.samplerNode_denote",
    "TDV.Node.samplerNode_epochs",
    "TDV.Node.statefulSource_denote",
    "TDV.Node.mapper_denote",
    "TDV.Node.batcher_denote",
    "TDV.Node.filter_denote",
    "TDV.Node.unbatcher_denote",
    "TDV.Node.buffered_denote",
    "TDV.Node.prebatch_denote",
    "TDV.Node.epoch_complete",
]
LEAN_MODULES = ["TorchDataVerif.Props.C04"]
RULE = ("pipelines are generated from one PRNG: a leaf (IterableWrapper over a list or over a Stateful iterable, SamplerWrapper "
        "over an epoch-indexed sampler; lengths 0..7, items ints/None/lists) under 0..4 operators (Mapper, Batcher both drop_last, "
        "Unbatcher, Filter, ParallelMapper(num_workers=0, prebatch), Prefetcher, threaded in-order ParallelMapper with and without "
        "prebatch). A case is non-trivial when the pipeline has at least one operator above the leaf and the run returned at least "
        "one item; distinct by (pipeline description, op list).")
EXPLANATION = ("Lean: per-combinator denotation lemmas and epoch_complete over the model M3 (every reset() epoch, from any state, yields "
               "the reference items then stops). Tie: differential run of the real operators against the model driver on every run. "
               "Oracle: real pipelines vs an independent reference evaluator over three epochs. Thread interleavings are NOT covered "
               "here (real threads, OS schedule); the thread protocol is the subject of the PF/PM models.")
ASSUMPTIONS = [
    "map/filter functions are deterministic and come from a fixed vocabulary; `map_fn` raising is one error kind",
    "samplers are functions of the epoch passed to set_epoch; Stateful iterables satisfy the laws of StLaws (harness uses one such iterable)",
    "Prefetcher / ParallelMapper(num_workers>0, in_order=True) are compared with their sequential abstraction `buffered`; "
    "reset() without a next() since the previous reset is excluded for them (a reader thread may or may not have started the sampler)",
    "a raising reset() ends a K-D case (the model does not describe the half-initialised object)",
]
KNOWN: Dict[str, Any] = {}


def _has_item(obs) -> bool:
    return any(isinstance(o, dict) and "i" in o for o in obs)


def kd_batch(ctx: Ctx, leg: str, n: int, threads: bool):
    reqs, reals, metas = [], [], []
    for i in range(n):
        d = nc.gen_pipe(ctx.rng, 4, allow_err=not threads or ctx.rng.random() < 0.3, allow_threads=threads)
        inf = nc.info(d)
        if threads and not inf["threaded"]:
            d = {"op": "buffered", "sf": ctx.rng.choice([0, 1, 2, 3]), "pf": ctx.rng.choice([1, 2, 4]), "src": d}
            inf = nc.info(d)
        ops = nc.gen_ops(ctx.rng, ctx.rng.randrange(4, 14 if threads else 28), False, strict_epochs=inf["threaded"])
        inp = {"pipe": d, "ops": ops}
        try:
            real = nc.run_ops_real(d, ops)
        except Exception as e:  # noqa: BLE001
            ctx.fail("pipeline_ops", inp, f"real pipeline raised outside next/reset: {type(e).__name__}: {e}")
            continue
        reqs.append({"m": "nodes", "pipe": d, "ops": ops})
        reals.append(real)
        metas.append(inp)
        ctx.count("kd_root:" + d["op"])
        if i < 1:
            ctx.sample({"leg": leg, **inp})
    answers = Driver().run(reqs)
    for inp, real, ans in zip(metas, reals, answers):
        ctx.model_lines += 1
        if "error" in ans:
            ctx.diverge(leg, inp, "model driver error: " + str(ans["error"]))
            continue
        model = nc.truncate_at_raise(ans["obs"])
        ctx.case(leg, inp, nc.info(inp["pipe"])["size"] > 1 and _has_item(real))
        if model != real:
            k = next((j for j, (a, b) in enumerate(zip(model, real)) if a != b), min(len(model), len(real)))
            ctx.diverge(leg, inp, f"first difference at op {k} ({inp['ops'][k] if k < len(inp['ops']) else '?'}): impl={real[k:k+3]} model={model[k:k+3]}")


def run_epochs(d, nep: int) -> List[Any]:
    """Items of `nep` consecutive epochs through node.reset(); an exception ends the run and is reported."""
    node = nc.build_real(d)
    out = []
    try:
        for _ in range(nep):
            node.reset()
            ep = []
            for _i in range(10000):
                try:
                    ep.append(nc.canon_item(next(node)))
                except StopIteration:
                    break
            else:
                ep.append("<no stop after 10000 items>")
            # a second next() after the stop must stop again
            try:
                next(node)
                ep.append("<item after stop>")
            except StopIteration:
                pass
            out.append(ep)
    finally:
        nc.shutdown(node)
    return out


def check_ref(d, nep: int = 3) -> Tuple[bool, str]:
    try:
        got = run_epochs(d, nep)
    except Exception as e:  # noqa: BLE001
        return False, f"pipeline raised {type(e).__name__}: {e}"
    want = [nc.ref_epoch(d, j) for j in range(nep)]
    if got != want:
        j = next(j for j in range(nep) if got[j] != want[j])
        return False, f"epoch {j}: pipeline yields {got[j]} but the reference is {want[j]}"
    return True, "ok"


def ko_batch(ctx: Ctx, leg: str, n: int, threads: bool):
    for i in range(n):
        d = nc.gen_pipe(ctx.rng, 4, allow_err=False, allow_threads=threads)
        if threads and not nc.info(d)["threaded"]:
            d = {"op": "buffered", "sf": ctx.rng.choice([0, 1, 2]), "pf": ctx.rng.choice([1, 3]), "src": d}
        inp = {"pipe": d, "epochs": 3}
        ok, msg = check_ref(d, 3)
        ref0 = nc.ref_epoch(d, 0)
        ctx.case(leg, inp, nc.info(d)["size"] > 1 and len(ref0) > 0)
        ctx.count("ko_sig:" + nc.pipe_sig(d).split("(")[0])
        if i < 1:
            ctx.sample({"leg": leg, **inp, "epoch0": ref0})
        if not ok:
            ctx.fail("ref_epochs", inp, msg)


def run(ctx: Ctx):
    kd_batch(ctx, "kd_seq", ctx.n(1500, 30000), False)
    kd_batch(ctx, "kd_thr", ctx.n(90, 800), True)
    ko_batch(ctx, "ko_ref", ctx.n(1500, 30000), False)
    ko_batch(ctx, "ko_thr", ctx.n(70, 600), True)


def escalate(ctx: Ctx):
    run(ctx)


def replay(ctx: Ctx, payload) -> Tuple[bool, str]:
    kind, inp = payload["kind"], payload["input"]
    if kind == "ref_epochs":
        return check_ref(inp["pipe"], inp.get("epochs", 3))
    if kind == "pipeline_ops":
        try:
            nc.run_ops_real(inp["pipe"], inp["ops"])
        except Exception as e:  # noqa: BLE001
            return False, f"{type(e).__name__}: {e}"
        return True, "ok"
    return True, "unknown kind"
