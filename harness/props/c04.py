"""C04 — node pipelines compute exactly their sequential reference semantics.

Legs
  kd_seq    K-D: random pipelines (depth <= 4) over the real sequential operators vs the Lean model
            `TDV.Node.*` built from the same description; ops next / reset_none (several epochs, partial
            epochs, errors from map functions and ill-typed unbatching included).
  kd_thr    K-D: pipelines containing a Prefetcher or a ParallelMapper with workers (thread and virtual-process
            method, in_order, and in_order=False with one worker), run under the virtual scheduler with a schedule
            drawn per case, vs the sequential abstraction `buffered`.
  ko_ref    K-O: items of 3 consecutive epochs (re-iterating with node.reset()) vs a pure-Python reference
            evaluator written from the documentation (nodes_common.ref_epoch); error-free pipelines.
  ko_thr    the same for pipelines with threaded operators, several schedules each (adversarial timeouts on/off,
            starved reader / starved consumer); a root ParallelMapper(in_order=False) with several workers is
            compared as a multiset per epoch.
"""
from __future__ import annotations

from typing import Any, Dict, List, Tuple

from ..core import Ctx
from ..leanbridge import Driver
from . import nodes_common as nc

THEOREMS = [
    "TDV.Node.listSource_denote",
    "TDV.Node.samplerNode_denote",
    "TDV.Node.samplerNode_epochs",
    "TDV.Node.statefulSource_denote",
    "TDV.Node.mapper_denote",
    "TDV.Node.batcher_denote",
    "TDV.Node.filter_denote",
    "TDV.Node.unbatcher_denote",
    "TDV.Node.buffered_denote",
    "TDV.Node.prebatch_denote",
    "TDV.Node.epoch_complete",
]
LEAN_MODULES = ["TorchDataVerif.Props.C04"]
RULE = ("pipelines are generated from one PRNG: a leaf (IterableWrapper over a list or over a Stateful iterable, SamplerWrapper "
        "over an epoch-indexed sampler; lengths 0..7, items ints/None/lists) under 0..4 operators (Mapper, Batcher both drop_last, "
        "Unbatcher, Filter, ParallelMapper(num_workers=0, prebatch), Prefetcher, threaded in-order ParallelMapper with and without "
        "prebatch). A case is non-trivial when the pipeline has at least one operator above the leaf and the run returned at least "
        "one item; distinct by (pipeline description, op list).")
EXPLANATION = ("Lean: per-combinator denotation lemmas and epoch_complete over the model M3 (every reset() epoch, from any state, yields "
               "the reference items then stops). Tie: differential run of the real operators against the model driver on every run. "
               "Oracle: real pipelines vs an independent reference evaluator over three epochs. Every case runs under the virtual "
               "scheduler (harness/vsched.py): reader, worker, sorter and consumer threads of the real code are interleaved from a "
               "seed that is part of the case.")
ASSUMPTIONS = [
    "map/filter functions are deterministic and come from a fixed vocabulary; `map_fn` raising is one error kind",
    "samplers are functions of the epoch passed to set_epoch; Stateful iterables satisfy the laws of StLaws (harness uses one such iterable)",
    "Prefetcher / ParallelMapper(num_workers>0) are compared with their sequential abstraction `buffered`; "
    "reset() without a next() since the previous reset is excluded for them (a reader thread may or may not have started the sampler); "
    "a ParallelMapper with workers is only generated over sub-pipelines that cannot raise (C11)",
    "a raising reset() ends a K-D case (the model does not describe the half-initialised object)",
    "under adversarial join timeouts a pipeline object with possibly live reader threads is never reset (K-D op lists then use "
    "fresh objects for reset(state)): reset() of a live Prefetcher/ParallelMapper whose joins give up is the known C12 finding",
]
KNOWN: Dict[str, Any] = {}


def _has_item(obs) -> bool:
    return any(isinstance(o, dict) and "i" in o for o in obs)


def _kd_real(ctx: Ctx, case):
    try:
        return nc.run_ops_real(case["pipe"], case["ops"], case["sched"])
    except BaseException as e:  # noqa: BLE001
        return ["<harness: %s: %s>" % (type(e).__name__, str(e)[:200])]


def kd_leg(ctx: Ctx, n: int, with_tokens: bool, extra=()):
    cases = list(extra)
    for _ in range(n):
        d = nc.gen_pipe(ctx.rng, 4, allow_err=True, p_thread=0.4)
        thr = nc.info(d)["threaded"]
        sc = nc.gen_sched(ctx.rng)
        ops = nc.gen_ops(ctx.rng, ctx.rng.randrange(4, 16 if thr else 28), with_tokens, strict_epochs=thr,
                         fresh_only=thr and sc["adv"])
        cases.append({"pipe": d, "ops": ops, "sched": sc})
    reals = ctx.pmap(_kd_real, cases)
    answers = Driver().run([{"m": "nodes", "pipe": c["pipe"], "ops": c["ops"]} for c in cases])
    seen = set()
    for inp, real, ans in zip(cases, reals, answers):
        inf = nc.info(inp["pipe"])
        leg = "kd_thr" if inf["threaded"] else "kd_seq"
        ctx.model_lines += 1
        if leg not in seen:
            seen.add(leg)
            ctx.sample({"leg": leg, **inp})
        ctx.count("kd_root:" + inp["pipe"]["op"])
        if real is None or (real and isinstance(real[-1], str) and real[-1].startswith("<harness")):
            ctx.note(f"harness error in a K-D case: {real}")
            continue
        if "error" in ans:
            ctx.diverge(leg, inp, "model driver error: " + str(ans["error"]))
            continue
        model = nc.truncate_at_raise(ans["obs"])
        uses_tok = any(isinstance(o, list) for o in inp["ops"])
        ctx.case(leg, inp, inf["size"] > 1 and _has_item(real) and (uses_tok or not with_tokens))
        if real and isinstance(real[-1], str) and real[-1].startswith("hang"):
            ctx.fail("pipeline_ops", inp, f"the pipeline hangs at op {len(real) - 1} ({inp['ops'][len(real) - 1]}): {real[-1]}")
            continue
        if model != real:
            k = next((j for j, (a, b) in enumerate(zip(model, real)) if a != b), min(len(model), len(real)))
            ctx.diverge(leg, inp, f"first difference at op {k} ({inp['ops'][k] if k < len(inp['ops']) else '?'}): impl={real[k:k+3]} model={model[k:k+3]}")


def run_epochs(d, nep: int, sched=None) -> List[Any]:
    """Items of `nep` consecutive epochs through node.reset(); an exception ends the run and is reported."""
    nodes: List[Any] = []
    out = []
    with nc.session(sched, nodes) as s:
        node = nc.build_real(d)
        nodes.append(node)
        for _ in range(nep):
            s.begin_op()
            node.reset()
            ep = []
            for _i in range(10000):
                s.begin_op()
                try:
                    ep.append(nc.canon_item(next(node)))
                except StopIteration:
                    break
            else:
                ep.append("<no stop after 10000 items>")
            # a second next() after the stop must stop again
            s.begin_op()
            try:
                next(node)
                ep.append("<item after stop>")
            except StopIteration:
                pass
            out.append(ep)
        node = None
    return out


def _ms(xs):
    return sorted(repr(x) for x in xs)


def check_ref(d, nep: int = 3, sched=None) -> Tuple[bool, str]:
    from .. import vsched
    try:
        got = run_epochs(d, nep, sched)
    except vsched.VHang as h:
        return False, f"pipeline hangs: {h}"
    except Exception as e:  # noqa: BLE001
        return False, f"pipeline raised {type(e).__name__}: {e}"
    want = [nc.ref_epoch(d, j) for j in range(nep)]
    if nc.info(d)["unordered"]:
        got, want = [_ms(e) for e in got], [_ms(e) for e in want]
    if got != want:
        j = next(j for j in range(nep) if got[j] != want[j])
        return False, f"epoch {j}: pipeline yields {got[j]} but the reference is {want[j]}"
    return True, "ok"


def _ko_one(ctx: Ctx, job):
    d = job["pipe"]
    inf = nc.info(d)
    leg = "ko_thr" if inf["threaded"] else "ko_ref"
    ref0 = nc.ref_epoch(d, 0)
    for sc in job["scheds"]:
        inp = {"pipe": d, "epochs": 3, "sched": sc}
        ok, msg = check_ref(d, 3, sc)
        ctx.case(leg, inp, inf["size"] > 1 and len(ref0) > 0)
        ctx.count("ko_sig:" + nc.pipe_sig(d).split("(")[0])
        if inf["threaded"]:
            ctx.count("sched:" + ("adv" if sc["adv"] else "plain") + ("/starve_" + ("main" if "main" in sc["weights"] else "reader") if sc["weights"] else ""))
        if not ok:
            ctx.fail("ref_epochs", inp, msg)
            break
    return leg


def ko_leg(ctx: Ctx, n: int):
    jobs = []
    for i in range(n):
        d = nc.gen_pipe(ctx.rng, 4, allow_err=False, p_thread=0.4, unordered_root=True)
        thr = nc.info(d)["threaded"]
        jobs.append({"pipe": d, "scheds": [nc.gen_sched(ctx.rng) for _ in range(3 if thr else 1)]})
    for j in jobs[:2]:
        ctx.sample({"leg": "ko", "pipe": j["pipe"], "sched": j["scheds"][0], "epoch0": nc.ref_epoch(j["pipe"], 0)})
    ctx.pmap(_ko_one, jobs)


def run(ctx: Ctx):
    kd_leg(ctx, ctx.n(1100, 30000), False)
    ko_leg(ctx, ctx.n(800, 25000))


def escalate(ctx: Ctx):
    run(ctx)


def replay(ctx: Ctx, payload) -> Tuple[bool, str]:
    kind, inp = payload["kind"], payload["input"]
    if kind == "ref_epochs":
        return check_ref(inp["pipe"], inp.get("epochs", 3), inp.get("sched"))
    if kind == "pipeline_ops":
        try:
            obs = nc.run_ops_real(inp["pipe"], inp["ops"], inp.get("sched"))
        except Exception as e:  # noqa: BLE001
            return False, f"{type(e).__name__}: {e}"
        if obs and isinstance(obs[-1], str) and obs[-1].startswith("hang"):
            return False, obs[-1]
        return True, "ok"
    return True, "unknown kind"


# ------------------------------------------------------------------------------------------------
# thread-interleaving half of C04: the Prefetcher / ParallelMapper protocol models (theorems over every
# interleaving + trace validation + stream oracles), assembled with the sequential-algebra part above.
from . import _compose, pf_parts, pm_parts  # noqa: E402

PARTS = [_compose.Part("nodes", run, replay, theorems=THEOREMS, modules=LEAN_MODULES, known=globals().get("KNOWN"))]
PARTS += pf_parts.parts("C04") + pm_parts.parts("C04")
from . import refine_parts, e2en_parts  # noqa: E402
PARTS.append(_compose.theorem_part("refine", refine_parts.THEOREMS_BY_PROP.get("C04", []), refine_parts.LEAN_MODULES))
PARTS.append(_compose.theorem_part("e2en", e2en_parts.THEOREMS_BY_PROP.get("C04", []), e2en_parts.LEAN_MODULES))
_compose.assemble(globals(), PARTS, RULE, EXPLANATION, ASSUMPTIONS)
