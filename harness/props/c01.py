"""C01 — StatefulDataLoader: a checkpoint at any batch resumes the exact remaining stream.

Legs
  ko_resume    K-O: for a generated configuration, one saving run records the whole stream of E epochs and a
               pickled state_dict() at EVERY position p (after k batches of every epoch, and after each epoch's
               StopIteration); for every p a freshly built loader (other schedule, other global seed) loads it
               and must reproduce stream[p:].  A clean reference run (no state_dict calls) cross-checks the
               saving run for deterministic configurations.
  ko_chain     chains: resume at p, iterate j, checkpoint, resume again into a third loader.
  kt_mp / kd_sp  correspondence of the MP / SP models (see harness/props/mp_model.py) — traces validated by Lean.
"""
from __future__ import annotations

import pickle
import random
from typing import Any, Dict, List, Optional, Tuple

import torch

from .. import sdl, vsched
from ..core import Ctx, Failure

RULE = ("configurations from harness.sdl.gen_cfg (dataset kind x statefulness x per-worker shard sizes incl. empty/uneven x W 0-4 x "
        "batch_size None/1-4 x drop_last x prefetch_factor x persistent_workers x snapshot_every_n_steps 0/None/1/2/3/5/7 x sampler kind); "
        "every interruption position of 2 epochs is resumed. A (config, position) case is non-trivial when the position is not a snapshot "
        "boundary (steps_since_snapshot > 0), or a worker had already exhausted its shard, or the position is inside the second epoch; "
        "distinct by (config, position).")
EXPLANATION = ("Lean: TDV.SP.resume_exact_* / resume_chain_* / resume_epochs* (single-process iterator: every sampler and dataset kind, "
               "every k, chains, following epochs; the shared-generator exception is refuted and excluded explicitly) and TDV.MP.* "
               "(multi-process protocol: schedule independence, snapshot fields, delta-at-yield). Tie: K-D of the SP model, K-T of the MP "
               "model against the real iterators on every run. Oracle: every interruption position of two epochs on the real loader.")
ASSUMPTIONS = ["worker processes are virtual (harness/vsched.py)"]

EPOCHS = 3


def _det(cfg) -> bool:
    return cfg.get("sampler", "seq") != "shuffle"


def _consume(loader, stream_len_limit, sched, on_pos=None, positions=None, max_epochs=EPOCHS):
    """Iterate `loader` epoch by epoch, recording observations; calls on_pos(p) BEFORE consuming
    observation p (p counts observations incl. stops) when p in positions (or all if None)."""
    obs: List[Any] = []
    n_ep = 0
    while len(obs) < stream_len_limit and n_ep < max_epochs:
        n_ep += 1
        it = iter(loader)
        while True:
            p = len(obs)
            if on_pos is not None and (positions is None or p in positions):
                on_pos(p)
            o = sdl.take(it, sched)
            obs.append(o)
            if o[0] != "item" or len(obs) >= stream_len_limit:
                break
        if obs and obs[-1][0] in ("hang", "error"):
            break
    return obs


def saving_run(cfg, seed_sched, seed_torch, total, positions=None, adversarial=False):
    """returns (stream, {p: pickled state_dict})"""
    sds: Dict[int, bytes] = {}
    with vsched.Session(seed_sched, adversarial=adversarial) as s:
        torch.manual_seed(seed_torch)
        loader = sdl.build(cfg)

        def on_pos(p):
            s.begin_op()
            sds[p] = pickle.dumps(loader.state_dict())

        stream = _consume(loader, total, s, on_pos, positions)
        del loader
    return stream, sds


def clean_run(cfg, seed_sched, seed_torch, total):
    with vsched.Session(seed_sched) as s:
        torch.manual_seed(seed_torch)
        loader = sdl.build(cfg)
        stream = _consume(loader, total, s)
        del loader
    return stream


def resumed_run(cfg, sd_bytes, seed_sched, seed_torch, total, adversarial=False, extra=None):
    """Fresh loader, load, iterate `total` observations. `extra(loader, sched, obs_so_far)` optional hook."""
    with vsched.Session(seed_sched, adversarial=adversarial) as s:
        torch.manual_seed(seed_torch)
        loader = sdl.build(cfg)
        loader.load_state_dict(pickle.loads(sd_bytes))
        try:
            stream = _consume(loader, total, s)
        except vsched.VHang as e:
            stream = [("hang", str(e))]
        except Exception as e:  # construction of the resumed iterator raised
            stream = [("error", type(e).__name__ + ": " + str(e)[:120])]
        del loader
    return stream


def _first_diff(a, b):
    for i, (x, y) in enumerate(zip(a, b)):
        if x != y:
            return i
    return min(len(a), len(b)) if len(a) != len(b) else None


def stream_len(cfg):
    """Observations in EPOCHS epochs for this configuration (run once, cheaply, single process semantics)."""
    return None


def check_cfg(ctx: Ctx, cfg: Dict[str, Any], case_seed: int, every_pos: bool = True):
    """The oracle for one configuration. Reports failures through ctx."""
    # 1. saving run over EPOCHS epochs with a state_dict at every position of the first two epochs
    probe = clean_run(cfg, case_seed, 1234, 10_000 if sdl.epoch_len_hint(cfg) < 60 else 300)
    # total observations of EPOCHS epochs
    stops = [i for i, o in enumerate(probe) if o[0] == "stop"]
    if any(o[0] in ("error", "hang") for o in probe):
        ctx.fail("clean_run", {"cfg": cfg, "seed": case_seed}, f"uninterrupted run does not complete: {probe[-1]}")
        return
    total = stops[EPOCHS - 1] + 1 if len(stops) >= EPOCHS else len(probe)
    probe = probe[:total]
    limit_pos = stops[1] + 1 if len(stops) >= 2 else total  # positions within first two epochs (incl. after their stops)
    positions = set(range(0, limit_pos + 1))
    stream, sds = saving_run(cfg, case_seed + 1, 1234, total, positions)
    if _det(cfg) and stream != probe:
        d = _first_diff(stream, probe)
        ctx.fail("state_dict_perturbs", {"cfg": cfg, "seed": case_seed},
                 f"calling state_dict() at every position changed the stream at observation {d}: {stream[d:d+2]} vs uninterrupted {probe[d:d+2]}")
        return
    plist = sorted(p for p in sds if p <= limit_pos and p < total)
    if not every_pos:
        r = random.Random(case_seed)
        plist = sorted(set(r.sample(plist, min(len(plist), 4)) + [plist[-1]]))
    first_stop = stops[0] if stops else total
    for p in plist:
        want = stream[p:]
        got = resumed_run(cfg, sds[p], case_seed + 7 + p, 4321 + p, len(want), adversarial=(p % 2 == 1))
        sd = pickle.loads(sds[p])
        steps_since = sd.get("_steps_since_snapshot", 0) if isinstance(sd, dict) else 0
        retired = _some_worker_retired(cfg, stream, p)
        nontriv = bool(steps_since) or retired or p > first_stop
        ctx.case("ko_resume", [cfg, p], nontriv)
        ctx.count("resume_pos:" + ("epoch2" if p > first_stop else "epoch1"))
        if steps_since:
            ctx.count("resume:between_snapshots")
        if retired:
            ctx.count("resume:after_worker_retired")
        if got != want:
            d = _first_diff(got, want)
            ctx.fail("resume", {"cfg": cfg, "seed": case_seed, "p": p},
                     f"resume at position {p} (epoch stops at {stops[:2]}) diverges at +{d}: got {got[d:d+3]} want {want[d:d+3]}")
            return  # one failure per configuration is enough
    return stream, sds, total


def _some_worker_retired(cfg, stream, p) -> bool:
    if not sdl.is_iter(cfg) or cfg["W"] < 2:
        return False
    # items seen so far in the current epoch
    start = 0
    for i in range(p - 1, -1, -1):
        if stream[i][0] == "stop":
            start = i + 1
            break
    seen = [0] * cfg["W"]
    for o in stream[start:p]:
        if o[0] == "item":
            b = o[1] if isinstance(o[1], list) else [o[1]]
            for x in b:
                seen[x // 1000] += 1
    bs = cfg["bs"] or 1
    for w, sz in enumerate(cfg["sizes"]):
        eff = sz - (sz % bs if cfg.get("drop_last") else 0)
        if seen[w] >= eff and eff < max(cfg["sizes"]):
            return True
    return False


def check_chain(ctx: Ctx, cfg, case_seed, p, j):
    probe = clean_run(cfg, case_seed, 1234, 2000)
    stops = [i for i, o in enumerate(probe) if o[0] == "stop"]
    if len(stops) < EPOCHS:
        return
    total = stops[EPOCHS - 1] + 1
    if p + j >= total:
        return
    stream, sds = saving_run(cfg, case_seed + 1, 1234, total, {p})
    # second lifetime: load sd_p, iterate j, checkpoint
    sd2 = {}
    with vsched.Session(case_seed + 2) as s:
        torch.manual_seed(99)
        l2 = sdl.build(cfg)
        l2.load_state_dict(pickle.loads(sds[p]))

        def on_pos(q):
            s.begin_op()
            sd2[q] = pickle.dumps(l2.state_dict())

        try:
            mid = _consume(l2, j + 1, s, on_pos, {j})
        except Exception as e:
            ctx.fail("chain", {"cfg": cfg, "seed": case_seed, "p": p, "j": j}, f"second lifetime raised {type(e).__name__}: {e}")
            return
        del l2
    ctx.case("ko_chain", [cfg, p, j], True)
    if j not in sd2:
        return
    if mid[:j] != stream[p:p + j]:
        return  # already a plain resume failure; reported by ko_resume
    want = stream[p + j:]
    got = resumed_run(cfg, sd2[j], case_seed + 3, 77, len(want))
    if got != want:
        d = _first_diff(got, want)
        ctx.fail("chain", {"cfg": cfg, "seed": case_seed, "p": p, "j": j},
                 f"chain resume(p={p}) -> {j} steps -> checkpoint -> resume diverges at +{d}: got {got[d:d+3]} want {want[d:d+3]}")


# ------------------------------------------------------------------------------------------------
# known-finding regions


def k_shared_generator_sp(f: Failure) -> bool:
    c = f.inp.get("cfg", {})
    return f.kind in ("resume", "chain") and c.get("W") == 0 and c.get("sampler") == "shuffle_gen"


KNOWN_RESUME = {
    "sp-explicit-generator-next-epoch": k_shared_generator_sp,
}


def _one(ctx: Ctx, job):
    i, cfg, seed, chain = job
    ctx.count("kind:" + cfg["kind"])
    ctx.count("W:" + str(cfg["W"]))
    ctx.count("interval:" + str(cfg["interval"]))
    res = check_cfg(ctx, cfg, seed)
    if res is not None and chain is not None:
        stream, sds, total = res
        if total > 3:
            r = random.Random(seed)
            p = r.randrange(0, max(1, total // 2))
            j = r.randrange(1, 4)
            check_chain(ctx, cfg, seed, p, j)
    return None


def run_resume(ctx: Ctx):
    import torch
    torch.set_num_threads(1)
    n = ctx.n(120, 2500)
    jobs = []
    for i in range(n):
        cfg = sdl.gen_cfg(ctx.rng, rand_samplers=0.1)
        seed = ctx.rng.randrange(1 << 30)
        if i < 2:
            ctx.sample({"leg": "ko_resume", "cfg": cfg})
        jobs.append((i, cfg, seed, True if i % 3 == 0 else None))
    ctx.pmap(_one, jobs)
    if ctx.tier == "thorough":
        # REAL worker processes (no virtual scheduler): a slice with sampled positions
        real = []
        for i in range(16):
            cfg = sdl.gen_cfg(ctx.rng, max_w=3)
            if cfg["W"] == 0:
                cfg["W"], cfg["pf"], cfg["persistent"] = 2, 2, False
                if sdl.is_iter(cfg):
                    cfg["sizes"] = (cfg["sizes"] * 3)[:2]
            cfg["real_mp"] = True
            real.append((i, cfg, ctx.rng.randrange(1 << 30), None))
        ctx.pmap(_one_real, real, nproc=6)


def _one_real(ctx: Ctx, job):
    i, cfg, seed, _ = job
    ctx.count("real_mp")
    check_cfg(ctx, cfg, seed, every_pos=False)




def replay_resume(ctx: Ctx, payload) -> Tuple[bool, str]:
    kind, inp = payload["kind"], payload["input"]
    sub = Ctx(ctx.prop, ctx.tier, ctx.seed)
    if kind in ("resume", "clean_run", "state_dict_perturbs"):
        check_cfg(sub, inp["cfg"], inp["seed"])
    elif kind == "chain":
        check_chain(sub, inp["cfg"], inp["seed"], inp["p"], inp["j"])
    if sub.failures:
        return False, sub.failures[0].what
    return True, "resumed streams equal the uninterrupted ones"


# ------------------------------------------------------------------------------------------------
from . import _compose, sp_kd  # noqa: E402

PARTS = [
    _compose.Part("resume", run_resume, replay_resume, known=KNOWN_RESUME),
    _compose.Part("sp_kd", lambda ctx: sp_kd.run_kd(ctx, 600, 6000), sp_kd.replay_kd, theorems=sp_kd.THEOREMS_C01, modules=sp_kd.LEAN_MODULES),
]
try:
    from . import mpr_kd
    PARTS.append(_compose.Part("mpr_kd", mpr_kd.run_kd, mpr_kd.replay_kd, theorems=mpr_kd.THEOREMS, modules=mpr_kd.LEAN_MODULES))
except ImportError:
    pass
try:
    from . import mpri_parts
    PARTS.append(_compose.theorem_part("mpri", mpri_parts.THEOREMS, mpri_parts.LEAN_MODULES))
except ImportError:
    pass
try:
    from . import mprff_parts
    PARTS += mprff_parts.parts()
except ImportError:
    pass
try:
    from . import e2e_parts
    PARTS.append(_compose.theorem_part("e2e", e2e_parts.THEOREMS, e2e_parts.LEAN_MODULES))
except ImportError:
    pass
try:
    from . import mprerr_parts
    PARTS += mprerr_parts.parts()
except ImportError:
    pass
try:
    from . import mp_parts
    PARTS += mp_parts.parts("C01")
except ImportError:
    pass
_compose.assemble(globals(), PARTS, RULE, EXPLANATION, ASSUMPTIONS)
