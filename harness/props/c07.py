"""C07 — worker dataset state in a checkpoint is exactly what the worker reported.

Legs
  kd_incr      K-D: real `_IncrementalState` worker/main pair vs Lean `TDV.Incr` over generated state
               histories (pickle transport, optionally delayed like the mp.Queue feeder thread).
  ko_incr      K-O: main.get_state() equals a deep copy of the state taken at report time.
  ko_wrapper   K-O on `_IncrementalWorkerState` histories (dataset state / iterator state / ended flag,
               None at any level).
  ko_loader    integration: StatefulDataLoader with (virtual) workers; `_worker_snapshots` in every
               checkpoint equals the state the worker's dataset had right after its last yielded batch.
"""
from __future__ import annotations

import copy
import pickle
from typing import Any, Dict, List, Tuple

from ..core import Ctx, Failure
from ..leanbridge import Driver

THEOREMS_INCR = [
    "TDV.Incr.flatten_keysNodup",
    "TDV.Incr.lookup_flatten",
    "TDV.Incr.unflatten_flatten",
    "TDV.Incr.apply_generate",
    "TDV.Incr.lossless",
    "TDV.Incr.lossless_state",
]
LEAN_MODULES_INCR = ["TorchDataVerif.Props.C07"]
RULE = ("state histories are generated from one PRNG: nested dicts (depth<=3) with int/str/list/None/{}/tensor leaves; "
        "steps add/delete/replace keys, turn leaves into dicts and back, mutate previously reported lists/tensors in place, "
        "or replace the whole state by a scalar/None. A case is non-trivial when its history contains at least one key deletion, "
        "one leaf<->dict change or one in-place mutation; distinct by the canonical form of the whole history.")
EXPLANATION = ("Lean: flatten/unflatten round trip and losslessness of delta transfer for every history (TDV.Incr.lossless*). "
               "Tie: differential run of the real _IncrementalState pair against the model's flat states and deltas-as-maps on every run; "
               "oracle on the real classes and on the loader's _worker_snapshots.")
ASSUMPTIONS = [
    "leaf equality is Python `==` (torch.equal for tensors); leaves are opaque codes in the model",
    "pickle round trip stands for the multiprocessing queue transport; shared-memory tensor transport is exercised only by the real-process slice",
]


# ------------------------------------------------------------------------------------------------
# generator of state histories


class Hist:
    """A history of reports. Each step is (op description, live state object)."""


def _rand_leaf(rng, allow_tensor=True):
    import torch
    r = rng.random()
    if r < 0.3:
        return rng.randrange(0, 4)
    if r < 0.45:
        return rng.choice(["a", "b", ""])
    if r < 0.5:
        return [rng.randrange(3) for _ in range(rng.randrange(0, 3))]
    if r < 0.6:
        # a list leaf holding mutable elements (a buffer of records): the dataset may advance them in place
        return [[rng.randrange(3)], {"n": rng.randrange(3)}][: rng.randrange(1, 3)]
    if r < 0.7:
        return None
    if r < 0.8:
        return {}
    if r < 0.9 and allow_tensor:
        return torch.tensor([rng.randrange(3) for _ in range(rng.randrange(1, 3))])
    return (rng.randrange(2), rng.randrange(2))


def _rand_val(rng, depth):
    if depth > 0 and rng.random() < 0.55:
        n = rng.randrange(1, 4)
        keys = rng.sample(["k0", "k1", "k2", 0, 1, ("t", 1)], n)
        return {k: _rand_val(rng, depth - 1) for k in keys}
    return _rand_leaf(rng)


def _paths(v, pre=()):
    """all (path, container, key) of entries in nested dicts"""
    out = []
    if isinstance(v, dict):
        for k, x in v.items():
            out.append((pre + (k,), v, k))
            out.extend(_paths(x, pre + (k,)))
    return out


def _mutate(rng, state) -> Tuple[Any, str]:
    """returns (new live state, op tag). Mutates containers in place (as a dataset would)."""
    import torch
    entries = _paths(state)
    r = rng.random()
    if not isinstance(state, dict) or not entries:
        if r < 0.5:
            return _rand_val(rng, 2), "replace_root"
        if isinstance(state, list):
            state.append(rng.randrange(3))
            return state, "inplace_root_list"
        return _rand_val(rng, 1), "replace_root"
    path, cont, key = rng.choice(entries)
    cur = cont[key]
    if r < 0.15:
        del cont[key]
        if len(state) == 0:
            state["z"] = 0
        return state, "delete"
    if r < 0.3:
        cont[rng.choice(["k0", "k1", "k2", "n0", 0, 1, 2])] = _rand_val(rng, 1)
        return state, "add"
    if r < 0.5:
        if isinstance(cur, list):
            inner = [x for x in cur if isinstance(x, (list, dict))]
            if inner and rng.random() < 0.7:
                x = rng.choice(inner)
                if isinstance(x, list):
                    x.append(rng.randrange(3))
                else:
                    x["n"] = x.get("n", 0) + 1
                return state, "inplace_nested"
            cur.append(rng.randrange(3))
            return state, "inplace_list"
        if isinstance(cur, torch.Tensor):
            cur.add_(1)
            return state, "inplace_tensor"
        cont[key] = _rand_leaf(rng)
        return state, "replace_leaf"
    if r < 0.65:
        if isinstance(cur, dict) and cur:
            cont[key] = _rand_leaf(rng)
            return state, "dict_to_leaf"
        cont[key] = {rng.choice(["k0", "k1", 0]): _rand_leaf(rng)}
        return state, "leaf_to_dict"
    if r < 0.75:
        return state, "noop"
    if r < 0.8:
        return _rand_val(rng, 2), "replace_root"
    cont[key] = _rand_leaf(rng)
    return state, "replace_leaf"


# ------------------------------------------------------------------------------------------------
# encoding to the model's Val


class Enc:
    def __init__(self):
        self.keys: Dict[str, int] = {}
        self.leaves: Dict[str, int] = {}

    def key(self, k) -> int:
        return self.keys.setdefault(repr(k), len(self.keys))

    def leaf(self, x) -> int:
        import torch
        if isinstance(x, torch.Tensor):
            r = "T" + repr(x.tolist())
        else:
            r = repr(x)
            # python equality identifies 1 == True == 1.0; the generator never mixes them
        return self.leaves.setdefault(r, len(self.leaves))

    def val(self, v):
        if isinstance(v, dict) and len(v) > 0:
            return {"d": [[self.key(k), self.val(x)] for k, x in v.items()]}
        return {"l": self.leaf(v)}

    def flat(self, fl: Dict[tuple, Any]) -> Dict[str, int]:
        return {repr([self.key(k) for k in path]): self.leaf(x) for path, x in fl.items()}


def _deep_eq(a, b) -> bool:
    import torch
    if isinstance(a, torch.Tensor) or isinstance(b, torch.Tensor):
        return isinstance(a, torch.Tensor) and isinstance(b, torch.Tensor) and a.shape == b.shape and torch.equal(a, b)
    if isinstance(a, dict) and isinstance(b, dict):
        return a.keys() == b.keys() and all(_deep_eq(a[k], b[k]) for k in a)
    if isinstance(a, (list, tuple)) and isinstance(b, (list, tuple)):
        return type(a) == type(b) and len(a) == len(b) and all(_deep_eq(x, y) for x, y in zip(a, b))
    return type(a) == type(b) and a == b


def _show(v):
    import torch
    if isinstance(v, torch.Tensor):
        return "tensor(%r)" % (v.tolist(),)
    if isinstance(v, dict):
        return "{" + ", ".join(f"{k!r}: {_show(x)}" for k, x in v.items()) + "}"
    if isinstance(v, list):
        return "[" + ", ".join(_show(x) for x in v) + "]"
    return repr(v)


# ------------------------------------------------------------------------------------------------
# running one history on the real classes


def gen_history(rng, nsteps) -> Dict[str, Any]:
    """A replayable description: seed-free explicit script of ops is awkward because ops act on live
    objects; we therefore record the sub-seed and the number of steps."""
    return {"sub_seed": rng.randrange(1 << 30), "steps": nsteps, "delay": rng.random() < 0.4, "depth": rng.choice([1, 2, 2, 3])}


def run_history(desc: Dict[str, Any]):
    """Runs the real _IncrementalState pair. Returns dict with per-step observations + tags."""
    import random
    from torchdata.stateful_dataloader.incremental_state import _IncrementalState

    rng = random.Random(desc["sub_seed"])
    state = _rand_val(rng, desc["depth"])
    init_snapshot = copy.deepcopy(state)
    worker = _IncrementalState(state)
    main = _IncrementalState(pickle.loads(pickle.dumps(state)))
    steps = []
    tags = []
    pending = None  # delta object not yet serialised (delayed feeder flush)
    pending_expected = None
    for i in range(desc["steps"]):
        state, tag = _mutate(rng, state)
        tags.append(tag)
        if pending is not None:
            # the feeder thread serialises the previous delta only now, after the dataset moved on
            main.apply_delta(pickle.loads(pickle.dumps(pending)))
            steps[-1]["main_flat"] = copy.deepcopy(main.flat_state)
            steps[-1]["main_state"] = copy.deepcopy(main.get_state())
            pending = None
        reported = copy.deepcopy(state)  # what state_dict() returned, at report time
        delta = worker.generate_delta(state)
        step = {"reported": reported, "tag": tag}
        steps.append(step)
        if desc["delay"] and i + 1 < desc["steps"]:
            pending = delta
        else:
            main.apply_delta(pickle.loads(pickle.dumps(delta)))
            step["main_flat"] = copy.deepcopy(main.flat_state)
            step["main_state"] = copy.deepcopy(main.get_state())
    return {"init": init_snapshot, "steps": steps, "tags": tags}


NONTRIVIAL_TAGS = {"delete", "dict_to_leaf", "leaf_to_dict", "inplace_list", "inplace_tensor", "inplace_root_list", "inplace_nested"}


def check_history(ctx: Ctx, desc, drv_requests, drv_meta):
    try:
        obs = run_history(desc)
    except Exception as e:  # the real code raised on a legal history
        ctx.fail("incr_history", desc, f"_IncrementalState raised {type(e).__name__}: {e}")
        return
    nontriv = bool(NONTRIVIAL_TAGS & set(obs["tags"]))
    ctx.case("ko_incr", desc, nontriv)
    for t in obs["tags"]:
        ctx.count("op:" + t)
    ctx.count("delay:" + str(desc["delay"]))
    # K-O
    for i, st in enumerate(obs["steps"]):
        if not _deep_eq(st["main_state"], st["reported"]):
            ctx.fail("incr_history", desc,
                     f"after report {i} ({st['tag']}) the main side holds {_show(st['main_state'])} but the worker reported {_show(st['reported'])}")
            break
    # K-D request
    enc = Enc()
    req = {"m": "incr", "init": enc.val(obs["init"]), "reports": [enc.val(s["reported"]) for s in obs["steps"]]}
    drv_requests.append(req)
    drv_meta.append((desc, obs, enc))


def compare_with_model(ctx: Ctx, answers, metas):
    for ans, (desc, obs, enc) in zip(answers, metas):
        ctx.model_lines += 1
        if "error" in ans:
            ctx.diverge("kd_incr", desc, "model driver error: " + str(ans["error"]))
            continue
        ctx.case("kd_incr", desc, bool(NONTRIVIAL_TAGS & set(obs["tags"])))
        for i, (st, mst) in enumerate(zip(obs["steps"], ans["steps"])):
            impl_flat = enc.flat(st["main_flat"])
            model_flat = {repr(p): c for p, c in mst["main"]}
            if impl_flat != model_flat:
                ctx.diverge("kd_incr", desc, f"step {i} ({st['tag']}): main flat state impl={impl_flat} model={model_flat}")
                break
            if mst["state"] != _sorted_val(enc.val(st["main_state"])) and _sorted_val(mst["state"]) != _sorted_val(enc.val(st["main_state"])):
                ctx.diverge("kd_incr", desc, f"step {i}: get_state impl={enc.val(st['main_state'])} model={mst['state']}")
                break


def _sorted_val(v):
    if "d" in v:
        return {"d": sorted(([k, _sorted_val(x)] for k, x in v["d"]), key=lambda e: e[0])}
    return v


# ------------------------------------------------------------------------------------------------
# explicit scripts (corpus witnesses that do not depend on the generator)


def run_script(inp: Dict[str, Any]):
    """inp = {"wrapper": bool, "delay": bool, "ops": [[op, ...], ...]}; literals are Python source
    evaluated with `tensor` bound to torch.tensor.  ops: init L | root L | set PATH L | del PATH |
    append PATH X | tensor_add PATH | report.  Returns list of (report index, reported, main)."""
    import torch
    from torchdata.stateful_dataloader.incremental_state import _IncrementalState, _IncrementalWorkerState

    lit = lambda src: eval(src, {"tensor": torch.tensor})
    cls = _IncrementalWorkerState if inp.get("wrapper") else _IncrementalState
    state = None
    worker = main = None
    bad, pending, idx = [], None, 0

    def walk(path):
        cur = state
        for k in path[:-1]:
            cur = cur[k]
        return cur

    for op in inp["ops"]:
        if op[0] == "init":
            state = lit(op[1])
            worker, main = cls(state), cls(pickle.loads(pickle.dumps(state)))
        elif op[0] == "root":
            state = lit(op[1])
        elif op[0] == "set":
            path = lit(op[1])
            walk(path)[path[-1]] = lit(op[2])
        elif op[0] == "del":
            path = lit(op[1])
            del walk(path)[path[-1]]
        elif op[0] == "append":
            path = lit(op[1])
            walk(path)[path[-1]].append(lit(op[2]))
        elif op[0] == "tensor_add":
            path = lit(op[1])
            walk(path)[path[-1]].add_(1)
        elif op[0] == "report":
            if pending is not None:
                main.apply_delta(pickle.loads(pickle.dumps(pending[0])))
                if not _deep_eq(main.get_state(), pending[1]):
                    bad.append((pending[2], pending[1], copy.deepcopy(main.get_state())))
                pending = None
            reported = copy.deepcopy(state)
            delta = worker.generate_delta(state)
            if inp.get("delay"):
                pending = (delta, reported, idx)
            else:
                main.apply_delta(pickle.loads(pickle.dumps(delta)))
                if not _deep_eq(main.get_state(), reported):
                    bad.append((idx, reported, copy.deepcopy(main.get_state())))
            idx += 1
    if pending is not None:
        main.apply_delta(pickle.loads(pickle.dumps(pending[0])))
        if not _deep_eq(main.get_state(), pending[1]):
            bad.append((pending[2], pending[1], copy.deepcopy(main.get_state())))
    return bad


# ------------------------------------------------------------------------------------------------
# wrapper-level oracle (_IncrementalWorkerState)


def gen_wrapper(rng) -> Dict[str, Any]:
    return {"sub_seed": rng.randrange(1 << 30), "steps": rng.randrange(1, 6), "iterable": rng.random() < 0.6,
            "none_mode": rng.choice(["never", "never", "always", "sometimes"])}


def run_wrapper(desc):
    import random
    from torchdata.stateful_dataloader.incremental_state import _IncrementalWorkerState

    rng = random.Random(desc["sub_seed"])

    def mk_state(ds, it, ended):
        return {"worker_id": 3, "dataset_state": ds,
                "fetcher_state": ({"dataset_iter_state": it, "fetcher_ended": ended} if desc["iterable"] else None)}

    def pick(cur):
        m = desc["none_mode"]
        if m == "always":
            return None
        if m == "sometimes" and rng.random() < 0.3:
            return None
        if cur is None or not isinstance(cur, dict):
            v = _rand_val(rng, 2)
            return v if isinstance(v, dict) and v else {"a": v}
        new, _ = _mutate(rng, cur)
        return new if isinstance(new, dict) and new else {"a": 0}

    ds, it = pick(None), pick(None)
    s0 = mk_state(ds, it, False)
    worker = _IncrementalWorkerState(s0)
    main = _IncrementalWorkerState(pickle.loads(pickle.dumps(s0)))
    out = []
    if not _deep_eq(main.get_state(), s0):
        out.append((-1, copy.deepcopy(s0), main.get_state()))
    for i in range(desc["steps"]):
        ds, it = pick(ds), pick(it)
        st = mk_state(ds, it, rng.random() < 0.3)
        reported = copy.deepcopy(st)
        delta = worker.generate_delta(st)
        main.apply_delta(pickle.loads(pickle.dumps(delta)))
        got = main.get_state()
        if not _deep_eq(got, reported):
            out.append((i, reported, got))
    return out


# ------------------------------------------------------------------------------------------------


def is_none_after_dict(f: Failure) -> bool:
    return f.kind == "wrapper_history" and f.inp.get("none_mode") == "sometimes"


KNOWN_INCR: dict = {}


def run_incr(ctx: Ctx):
    drv = Driver()
    reqs, metas = [], []
    n = ctx.n(400, 6000)
    for i in range(n):
        desc = gen_history(ctx.rng, ctx.rng.randrange(1, 7))
        check_history(ctx, desc, reqs, metas)
        if i < 2:
            ctx.sample({"leg": "kd_incr", "desc": desc})
    answers = drv.run(reqs)
    compare_with_model(ctx, answers, metas)

    for i in range(ctx.n(300, 4000)):
        desc = gen_wrapper(ctx.rng)
        try:
            bad = run_wrapper(desc)
        except Exception as e:
            ctx.fail("wrapper_history", desc, f"_IncrementalWorkerState raised {type(e).__name__}: {e}")
            continue
        ctx.case("ko_wrapper", desc, desc["none_mode"] != "always")
        ctx.count("wrapper_none:" + desc["none_mode"])
        if bad:
            i0, rep, got = bad[0]
            ctx.fail("wrapper_history", desc, f"after report {i0} main side holds {_show(got)} but worker reported {_show(rep)}")

    from . import c07_loader
    c07_loader.run(ctx)




def replay_incr(ctx: Ctx, payload) -> Tuple[bool, str]:
    kind, inp = payload["kind"], payload["input"]
    if kind == "incr_history":
        obs = run_history(inp)
        for i, st in enumerate(obs["steps"]):
            if not _deep_eq(st["main_state"], st["reported"]):
                return False, f"report {i}: main={_show(st['main_state'])} reported={_show(st['reported'])}"
        return True, "main side equals every report"
    if kind == "wrapper_history":
        bad = run_wrapper(inp)
        if bad:
            return False, f"report {bad[0][0]}: main={_show(bad[0][2])} reported={_show(bad[0][1])}"
        return True, "ok"
    if kind == "incr_script":
        bad = run_script(inp)
        if bad:
            return False, f"report {bad[0][0]}: main={_show(bad[0][2])} reported={_show(bad[0][1])}"
        return True, "main side equals every report"
    if kind == "loader_snapshot":
        from . import c07_loader
        return c07_loader.replay(inp)
    return True, "unknown kind"


# ------------------------------------------------------------------------------------------------
from . import _compose, c07w  # noqa: E402

PARTS = [
    _compose.Part("incr", run_incr, replay_incr, theorems=THEOREMS_INCR, modules=LEAN_MODULES_INCR, known=KNOWN_INCR),
    _compose.Part("c07w", c07w.run_kd, c07w.replay_kd, theorems=c07w.THEOREMS, modules=c07w.LEAN_MODULES),
]
try:
    from . import mp_parts
    PARTS.append(_compose.Part("mp", lambda ctx: None, None, theorems=["TDV.MP.delta_at_yield_map"], modules=mp_parts.LEAN_MODULES))
    PARTS.append(_compose.Part("mp_iter", lambda ctx: None, None, theorems=mp_parts.C05ITER_BY_PROP["C07"],
                               modules=mp_parts.LEAN_MODULES_C05ITER))
except ImportError:
    pass
_compose.assemble(globals(), PARTS, RULE, EXPLANATION, ASSUMPTIONS)
