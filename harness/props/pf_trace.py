"""Prefetcher thread protocol (model `TDV.PF`): trace validation (K-T) and oracles on the real threads (K-O).

Called from the C04 / C06 / C11 / C12 / C17 check modules:

    from . import pf_trace
    pf_trace.run_kt(ctx)      # K-T: real `Prefetcher` under the virtual scheduler -> event trace -> Lean acceptor
    pf_trace.run_ko(ctx)      # K-O: oracles C04 / C06 / C11 / C12 / C17 under many schedules per case
    pf_trace.replay(ctx, payload)   # re-runs one failing input (`{"kind":…, "input":…}` as stored by ctx.fail)
    KNOWN, THEOREMS, LEAN_MODULES, RULE, EXPLANATION, ASSUMPTIONS

A *case* is a JSON-able dict
    {"pf","f","items":[ints],"term":"stop"|"error","hist":[op,…],"sched":{"seed","adv"},"delay":virtual seconds per source next(),
     "sfail": None|position at which source.state_dict() raises, "worker": absent|"pin" (PinMemory's iterator, pf = 1)}
ops:  "next" | "sd" (state_dict, remembered) | "reset" (node.reset(): new epoch mid-stream) |
      "reload" (drop the node; fresh source + fresh Prefetcher; reset(last remembered state_dict)) | "del" (drop the node)

Instrumentation (nothing in /repo is modified): the virtual scheduler logs every primitive operation; in addition, for the
duration of a case, `_SingleThreadedMapper.__init__/__next__/get_state`, `QueueSnapshotStore.pop_version` and the name
`_populate_queue` inside torchdata.nodes.prefetch are wrapped so that they log generation starts, call returns, popped
versions and the return of the worker function.
"""
from __future__ import annotations

import copy
import functools
import re
import sys
from typing import Any, Dict, List, Optional, Tuple

sys.path.insert(0, __import__("os").environ.get("VERIF_REPO", "/repo"))

from ..core import Ctx, Failure
from ..leanbridge import Driver
from .. import vsched
from ..vsched import Session, VHang, S

LEAN_MODULES = ["TorchDataVerif.Props.PF"]


class SrcErr(RuntimeError):
    pass


class SdErr(RuntimeError):
    """raised by the source's state_dict() at the chosen position"""


_SRC_CLS = None


def Src(items, term, delay=0.0, sfail=None):
    """Instrumented source node: logs enter/leave of next(), counts concurrent entries and results handed out."""
    global _SRC_CLS
    if _SRC_CLS is None:
        from torchdata.nodes import BaseNode

        class _Src(BaseNode):
            def __init__(self, items, term, delay, sfail=None):
                super().__init__()
                self.items, self.term, self.delay = list(items), term, delay
                self.sfail = sfail  # state_dict() raises whenever the source is at this position
                self.pos = 0
                self.inside = 0
                self.max_inside = 0
                self.pulled_by: Dict[int, int] = {}  # id(VT) -> results handed out (items and the terminal)
                self.resets = 0

            def reset(self, initial_state=None):
                super().reset(initial_state)
                self.resets += 1
                self.pos = 0 if initial_state is None else initial_state["pos"]

            def next(self):
                s = S()
                me = s.me()
                self.inside += 1
                self.max_inside = max(self.max_inside, self.inside)
                s.ev("src", "enter", id(me))
                try:
                    if self.delay > 0:
                        s.switch(lambda: False, self.delay)
                    else:
                        s.switch()
                    self.pulled_by[id(me)] = self.pulled_by.get(id(me), 0) + 1
                    if self.pos < len(self.items):
                        v = self.items[self.pos]
                        self.pos += 1
                        s.ev("src", "leave", id(me), 0, v)
                        return v
                    if self.term == "error":
                        s.ev("src", "leave", id(me), 2, 0)
                        raise SrcErr("source failed")
                    s.ev("src", "leave", id(me), 1, 0)
                    raise StopIteration()
                finally:
                    self.inside -= 1

            def get_state(self):
                if self.sfail is not None and self.pos == self.sfail:
                    s = vsched.CUR
                    if s is not None and not s.closed:
                        s.ev("src", "sdfail", id(s.me()))
                    raise SdErr("state_dict failed at position %d" % self.pos)
                return {"pos": self.pos}

        _SRC_CLS = _Src
    return _SRC_CLS(items, term, delay, sfail)


_PIN_CLS = None


def make_node(case, src):
    """the node under test: `Prefetcher`, or (case["worker"] == "pin") the iterator of `PinMemory` - PinMemory.__init__ needs a
    CUDA device, so a node with PinMemory's reset()/next()/get_state() bodies builds exactly its
    `_SingleThreadedMapper(prefetch_factor=1, worker=wraps(_pin_memory_loop)(partial(_pin_memory_loop, device_id=0, device=None)))`"""
    global _PIN_CLS
    if case.get("worker") != "pin":
        from torchdata.nodes import Prefetcher
        return Prefetcher(src, prefetch_factor=case["pf"], snapshot_frequency=case["f"])
    if _PIN_CLS is None:
        from torchdata.nodes import BaseNode

        class _Pin(BaseNode):
            def __init__(self, source, snapshot_frequency):
                super().__init__()
                self.source, self.snapshot_frequency = source, snapshot_frequency
                self._it = None

            def reset(self, initial_state=None):
                import torchdata.nodes.pin_memory as PMM
                from torchdata.nodes.map import _SingleThreadedMapper
                super().reset(initial_state)
                if self._it is not None:
                    self._it._shutdown()
                    del self._it
                self._it = _SingleThreadedMapper(
                    source=self.source, prefetch_factor=1,
                    worker=functools.wraps(PMM._pin_memory_loop)(functools.partial(PMM._pin_memory_loop, device_id=0, device=None)),
                    snapshot_frequency=self.snapshot_frequency, initial_state=initial_state)

            def next(self):
                return next(self._it)

            def get_state(self):
                return self._it.get_state()

        _PIN_CLS = _Pin
    return _PIN_CLS(src, case["f"])


def ref_results(case, base=0) -> List[tuple]:
    """reference: results of successive next() calls from source position `base`, up to and including the terminal"""
    out: List[tuple] = [("i", v) for v in case["items"][base:]]
    out.append(("e", "src") if case["term"] == "error" else ("s",))
    return out


# --------------------------------------------------------------------------------------------------------------
# instrumentation


def _pf_short(item):
    """canonical text of a queue payload `(item, idx)` / a snapshot-store entry `(version, snapshot)`"""
    from torchdata.nodes.exception_wrapper import ExceptionWrapper
    if isinstance(item, tuple) and len(item) == 2:
        a, b = item
        if isinstance(b, int) and not isinstance(b, bool):
            if isinstance(a, StopIteration):
                return "PF 1 0 %d" % b
            if isinstance(a, ExceptionWrapper):
                return "PF 2 0 %d" % b
            if isinstance(a, int) and not isinstance(a, bool):
                return "PF 0 %d %d" % (a, b)
        if isinstance(a, int) and isinstance(b, dict) and "pos" in b:
            return "PS %d %d" % (a, b["pos"])
        if isinstance(a, int) and isinstance(b, ExceptionWrapper):
            return "PS %d err" % a
    try:
        return repr(item)[:80]
    except Exception:
        return "<?>"


class Gen:
    """names of the shared objects and the reader thread of one `_SingleThreadedMapper`"""

    def __init__(self, idx, base, src):
        self.idx = idx
        self.base = base
        self.src = src
        self.names: Dict[str, str] = {}
        self.reader_vt = None
        self.created_at = 0     # index into sched.events


class Instr:
    """context manager: wraps the unlogged operations for the duration of a case"""

    def __init__(self):
        self.gens: List[Gen] = []

    def __enter__(self):
        import torchdata.nodes.map as M
        import torchdata.nodes.snapshot_store as SS
        import torchdata.nodes.prefetch as P
        self.M, self.SS, self.P = M, SS, P
        cls = M._SingleThreadedMapper
        self.o_init, self.o_next, self.o_state = cls.__init__, cls.__next__, cls.get_state
        self.o_pop = SS.QueueSnapshotStore.pop_version
        self.o_worker = P._populate_queue
        import torchdata.nodes.pin_memory as PMM
        self.PMM = PMM
        self.o_pin = PMM._pin_memory_loop
        instr = self

        def init(it, *a, **k):
            ist = k.get("initial_state", a[4] if len(a) > 4 else None)
            src = k.get("source", a[0] if a else None)
            g = Gen(len(instr.gens), 0 if ist is None else ist["snapshot"]["pos"], src)
            instr.gens.append(g)
            s = vsched.CUR
            if s is not None:
                g.created_at = len(s.events)
                s.ev("gen", g.idx)
            try:
                return instr.o_init(it, *a, **k)
            finally:
                instr.capture(g, it)

        def nxt(it):
            s = vsched.CUR
            try:
                x = instr.o_next(it)
            except StopIteration:
                if s is not None and not s.closed:
                    s.ev("ret", 1, 0)
                raise
            except VHang:
                raise
            except vsched.VKill:
                raise
            except BaseException:
                if s is not None and not s.closed:
                    s.ev("ret", 2, 0)
                raise
            if s is not None and not s.closed:
                s.ev("ret", 0, x)
            return x

        def get_state(it):
            r = instr.o_state(it)
            s = vsched.CUR
            if s is not None and not s.closed:
                s.ev("state", r["snapshot"]["pos"], r["steps_since_snapshot"])
            return r

        def pop_version(store, version):
            r = instr.o_pop(store, version)
            s = vsched.CUR
            if s is not None and not s.closed:
                s.ev("pop", store._q.name, version, None if r is None else r["pos"])
            return r

        @functools.wraps(self.o_worker)
        def worker(source, q, *a, **k):
            try:
                return instr.o_worker(source, q, *a, **k)
            finally:
                s = vsched.CUR
                if s is not None and not s.closed and s.me() is not None and not s.me().killed:
                    s.ev("rexit", q.name)

        @functools.wraps(self.o_pin)
        def pin_worker(source, q, *a, **k):
            try:
                return instr.o_pin(source, q, *a, **k)
            finally:
                s = vsched.CUR
                if s is not None and not s.closed and s.me() is not None and not s.me().killed:
                    s.ev("rexit", q.name)

        def shutdown(it):
            s = vsched.CUR
            ev = getattr(it, "_stop_event", None)
            live = s is not None and not s.closed and getattr(ev, "s", None) is s
            if live:
                s.ev("shut", ev.name)
            try:
                return instr.o_shutdown(it)
            finally:
                if live and not s.closed:
                    s.ev("shutend")

        self.o_shutdown = cls._shutdown
        self.o_short = vsched._short
        cls.__init__, cls.__next__, cls.get_state, cls._shutdown = init, nxt, get_state, shutdown
        SS.QueueSnapshotStore.pop_version = pop_version
        P._populate_queue = worker
        PMM._pin_memory_loop = pin_worker
        vsched._short = _pf_short
        return self

    def capture(self, g: Gen, it):
        for role, attr in (("q", "_q"), ("sem", "_sem"), ("stop", "_stop_event")):
            o = getattr(it, attr, None)
            if o is not None and getattr(o, "name", None) is not None:
                g.names[o.name] = role
        st = getattr(it, "_snapshot_store", None)
        if st is not None:
            g.names[st._q.name] = "store"
        th = getattr(it, "_thread", None)
        if th is not None and getattr(th, "vt", None) is not None:
            g.reader_vt = th.vt

    def __exit__(self, *a):
        cls = self.M._SingleThreadedMapper
        cls.__init__, cls.__next__, cls.get_state, cls._shutdown = self.o_init, self.o_next, self.o_state, self.o_shutdown
        vsched._short = self.o_short
        self.SS.QueueSnapshotStore.pop_version = self.o_pop
        self.P._populate_queue = self.o_worker
        self.PMM._pin_memory_loop = self.o_pin
        return False


def translate(events: List[tuple], gens: List[Gen]):
    """scheduler events -> one model trace over all iterator generations.
    Returns (trace, stale, bad): stale = a reader of an old generation drove the SAME source object after a newer
    generation had been created (the known C12 defect: the per-generation source view of the model no longer applies)."""
    by_name: Dict[str, Tuple[int, str]] = {}
    by_vt: Dict[int, int] = {}
    for g in gens:
        for n, role in g.names.items():
            by_name[n] = (g.idx, role)
        if g.reader_vt is not None:
            by_vt[id(g.reader_vt)] = g.idx
    trace: List[list] = []
    bad: List[str] = []
    stale = False
    cur = -1
    in_shut = saw_join = skip_shut = False
    for e in events:
        tname, op = e[0], e[1]
        main = tname == "main"
        if op == "gen":
            cur = e[2]
            if cur > 0:
                trace.append(["c", "reset", cur])
            continue
        if op == "start":
            continue
        if op == "shut":
            gi = by_name.get(e[2], (cur,))[0]
            if gi != cur:
                skip_shut = True   # late `__del__` of an abandoned iterator: `_shutdown` again (stop is already set)
            else:
                in_shut, saw_join = True, False
            continue
        if op == "shutend":
            if skip_shut:
                skip_shut = False
                continue
            if in_shut and not saw_join:
                trace.append(["c", "join", 1])
            in_shut = False
            continue
        if skip_shut and main:
            if not (op in ("set", "join")):
                bad.append("unexpected consumer event inside a late _shutdown: %r" % (e,))
            continue
        if op == "join":
            if main:
                saw_join = True
                trace.append(["c", "join", int(bool(e[3]))])
            continue
        if op == "src":
            gi = by_vt.get(e[3])
            if gi is None:
                bad.append("source driven by an unknown thread: %r" % (e,))
                continue
            if e[2] == "sdfail":
                # the reader's next(source) + source.state_dict() is ONE interaction with user code (model action rLeave): a
                # state_dict() that raises turns the result of that interaction into the error terminal
                for k in range(len(trace) - 1, -1, -1):
                    if trace[k][0] == "r%d" % gi:
                        if trace[k][1] == "leave":
                            trace[k] = ["r%d" % gi, "leave", 2, 0]
                        break
                continue
            if gi != cur and 0 <= cur < len(gens) and gens[gi].src is gens[cur].src:
                stale = True
            trace.append(["r%d" % gi, "enter"] if e[2] == "enter" else ["r%d" % gi, "leave", e[4], e[5]])
            continue
        if op in ("ret", "state"):
            trace.append(["c", op] + [int(x) for x in e[2:]])
            continue
        if op == "rexit":
            if e[2] in by_name:
                trace.append(["r%d" % by_name[e[2]][0], "exit"])
            continue
        obj = e[2] if len(e) > 2 else None
        if obj not in by_name:
            continue  # objects of other nodes
        gi, role = by_name[obj]
        th = "c" if main else "r%d" % gi
        if main and gi != cur:
            bad.append("consumer touches generation %d while generation %d is current: %r" % (gi, cur, e))
        if role == "store":
            if op == "put":
                f = str(e[3]).split()
                if len(f) != 3 or f[0] != "PS":
                    bad.append("unparsed store payload %r" % (e,))
                elif int(f[1]) == -1:
                    trace.append(["r%d" % gi, "init"])
                else:
                    trace.append(["r%d" % gi, "append", int(f[1]), int(f[2])])
            elif op == "get":
                trace.append(["c", "boot", 0 if e[3] == "empty" else 1])
            elif op == "pop":
                trace.append(["c", "pop", e[3], 0 if e[4] is None else 1, 0 if e[4] is None else e[4]])
        elif role == "stop":
            if op == "is_set":
                trace.append([th, "isset", int(e[3])])
            elif op == "set":
                trace.append(["c", "set"])
        elif role == "sem":
            if op == "acquire":
                trace.append(["r%d" % gi, "acq", int(e[3])])
            elif op == "release":
                trace.append(["c", "release", e[3]])
        elif role == "q":
            if e[3] == "empty":
                trace.append([th, "get", 3])
                continue
            f = str(e[3]).split()
            if len(f) != 4 or f[0] != "PF":
                bad.append("unparsed payload %r" % (e,))
                continue
            trace.append([th, op, int(f[1]), int(f[2]), int(f[3])])
    if bad:
        trace.append(["?", "; ".join(bad)[:300]])
    return trace, stale, bad


def eff_stream(case, base=0):
    """(items, terminal, start_err) the protocol sees from source position `base`: a state_dict() failure at a position where
    a snapshot is due replaces the item just pulled by the error (the stream is items[:p-1] + error); at position `base`
    itself it is the start-up failure"""
    items, term, p, f = case["items"], case["term"], case.get("sfail"), case["f"]
    if p is not None and p == base:
        return [], term, True
    if p is not None and f > 0 and base < p <= len(items) and (p - base) % f == 0:
        return list(items[base:p - 1]), "error", False
    return list(items[base:]), term, False


def lean_request(case, gens: List[Gen], trace) -> Dict[str, Any]:
    out = []
    for g in gens:
        src, term, serr = eff_stream(case, g.base)
        out.append({"src": src, "term": term, "base": g.base, "start_err": serr})
    return {"m": "pf", "cfg": {"pf": case["pf"], "f": case["f"]}, "gens": out, "trace": trace}


# --------------------------------------------------------------------------------------------------------------
# running one case on the real code


class Run:
    """result of one case"""

    def __init__(self):
        self.obs: List[Any] = []          # per op: ("i", x) | ("e", kind) | ("s",) | ("sd", pos, steps) | ("reset",) | ("hang", msg) …
        self.events: List[tuple] = []
        self.gens: List[Gen] = []
        self.hang: Optional[str] = None
        self.max_held = 0                 # max over switch points of (results pulled by a reader − messages taken by its consumer)
        self.held_at: Optional[str] = None
        self.idle_held = 0                # max at operation boundaries of (results pulled − results returned by next())
        self.max_inside = 0               # max number of threads inside one source node's next()
        self.leaks: List[str] = []
        self.sds: List[Any] = []
        self.n_timeouts = 0
        self.n_switch = 0
        self.internal: Optional[str] = None
        self.srcs: List[Any] = []


def _err_kind(e: BaseException) -> str:
    if isinstance(e, SrcErr):
        return "src"
    if isinstance(e, SdErr):
        return "sd"
    return type(e).__name__


def run_case(case, probe_held=False, check_release=False, op_budget=60.0) -> Run:
    """Runs the consumer history of `case` on the real Prefetcher under the virtual scheduler."""
    import gc
    from torchdata.nodes import Prefetcher
    r = Run()
    sc = case["sched"]
    delay = float(case.get("delay", 0.0))
    with Instr() as instr:
        with Session(sc["seed"], adversarial=bool(sc.get("adv")), log=True, op_budget=op_budget) as s:
            src = Src(case["items"], case["term"], delay, case.get("sfail"))
            r.srcs.append(src)
            node = make_node(case, src)
            st = {"ev_i": 0, "taken": {}, "rets": 0}

            def scan():
                evs = s.events
                i = st["ev_i"]
                while i < len(evs):
                    e = evs[i]
                    i += 1
                    if e[0] == "main" and e[1] == "get" and len(e) > 3 and e[3] != "empty" and str(e[3]).startswith("PF"):
                        st["taken"][e[2]] = st["taken"].get(e[2], 0) + 1
                st["ev_i"] = i

            def hook(sched):
                scan()
                for g in instr.gens:
                    if g.reader_vt is None:
                        continue
                    qn = next((n for n, role in g.names.items() if role == "q"), None)
                    pulled = g.src.pulled_by.get(id(g.reader_vt), 0)
                    h = pulled - st["taken"].get(qn, 0)
                    if h > r.max_held:
                        r.max_held = h
                        if h > case["pf"] and r.held_at is None:
                            r.held_at = (f"generation {g.idx}: {pulled} results pulled from the source, "
                                         f"{st['taken'].get(qn, 0)} taken by the consumer, prefetch_factor={case['pf']}")

            if probe_held:
                s.hooks.append(hook)

            def release_check(what):
                """C17: every reader thread of an abandoned generation exits within 5 virtual seconds"""
                if not check_release:
                    return
                t0 = s.clock
                s.begin_op()
                while s.clock - t0 < 5.0 and any(v.state != "done" for v in old_vts()):
                    s.switch(lambda: False, 0.25)
                    s.begin_op()
                left = [v.name for v in old_vts() if v.state != "done"]
                if left:
                    r.leaks.append(f"{what}: {len(left)} reader thread(s) of abandoned iterators still alive after "
                                   f"{s.clock - t0:.2f} virtual seconds")

            def settle():
                """after `del node`: an exhausted iterator is kept alive by the StopIteration object that the reader thread
                still references until it returns; the consumer idles until the iterator has been finalised"""
                g = instr.gens[-1] if instr.gens else None
                name = next((n for n, role in g.names.items() if role == "stop"), None) if g else None
                mark = g.created_at if g else 0
                for _ in range(60):
                    gc.collect()
                    if name is None or any(e[1] == "shut" and e[2] == name for e in s.events[mark:]):
                        return
                    s.begin_op()
                    s.switch(lambda: False, 0.05)

            cur_live = {"on": True}

            def old_vts():
                gs = instr.gens if not cur_live["on"] else instr.gens[:-1]
                return [g.reader_vt for g in gs if g.reader_vt is not None]

            gc.collect()
            gc.disable()
            try:
                s.begin_op()
                hist = case["hist"]
                try:
                    node.reset()
                except SdErr as e:
                    # state_dict() failed in the reader's start-up: the constructor re-raises the StartupExceptionWrapper
                    r.obs.append(("reset-error", _err_kind(e)))
                    hist = []
                if not hist and r.obs:   # (outside the handler: the exception's traceback keeps the failed iterator alive)
                    del node
                    node = None
                    settle()
                    cur_live["on"] = False
                    release_check("failed reset()")
                for op in hist:
                    s.begin_op()
                    if op == "next":
                        try:
                            x = next(node)
                            r.obs.append(("i", x))
                        except StopIteration:
                            r.obs.append(("s",))
                        except SrcErr as e:
                            r.obs.append(("e", _err_kind(e)))
                        except VHang:
                            raise
                        except Exception as e:  # noqa
                            r.obs.append(("e", _err_kind(e)))
                        if probe_held and instr.gens and instr.gens[-1].reader_vt is not None:
                            g = instr.gens[-1]
                            rets = sum(1 for e in s.events[g.created_at:] if e[0] == "main" and e[1] == "ret" and (e[2] != 1 or True))
                            r.idle_held = max(r.idle_held, g.src.pulled_by.get(id(g.reader_vt), 0) - rets)
                    elif op == "sd":
                        sd = node.state_dict()
                        r.sds.append(copy.deepcopy(sd))
                        r.obs.append(("sd", sd["snapshot"]["pos"], sd["steps_since_snapshot"]))
                    elif op == "reset":
                        node.reset()
                        gc.collect()   # an exhausted iterator is kept alive by its StopIteration traceback cycle
                        r.obs.append(("reset",))
                        release_check("reset()")
                    elif op == "reload":
                        sd = copy.deepcopy(r.sds[-1]) if r.sds else None
                        del node
                        settle()
                        src = Src(case["items"], case["term"], delay, case.get("sfail"))
                        r.srcs.append(src)
                        node = make_node(case, src)
                        try:
                            node.reset(sd)
                            r.obs.append(("reload",))
                        except VHang:
                            raise
                        except Exception as e:  # noqa
                            r.obs.append(("reload-error", _err_kind(e)))
                        release_check("del + new node")
                    elif op == "del":
                        del node
                        node = None
                        settle()
                        cur_live["on"] = False
                        r.obs.append(("del",))
                        release_check("del")
                        break
                if check_release and node is not None and r.obs and r.obs[-1] in (("s",), ("e", "src"), ("e", "sd")):
                    cur_live["on"] = False
                    release_check("exhaustion")
            except VHang as h:
                r.hang = str(h)
                r.obs.append(("hang", str(h)))
            except Exception as e:  # machinery or unexpected library error: reported by the caller
                import traceback
                r.internal = traceback.format_exc()[-800:]
            finally:
                gc.enable()
            r.events = list(s.events)
            r.gens = list(instr.gens)
            r.n_timeouts = s.n_timeouts
            r.n_switch = s.n_switch
            r.max_inside = max(x.max_inside for x in r.srcs)
            node = None
            gc.collect()
    return r


# --------------------------------------------------------------------------------------------------------------
# generators


def gen_case(rng, adv=None, delay=0.0, sfail=None) -> Dict[str, Any]:
    """sfail: None = state_dict() fails in ~12% of the cases, False = never, True = always (when a position is available)"""
    c = _gen_case(rng, adv, delay)
    if rng.random() < 0.15:
        c["worker"], c["pf"] = "pin", 1   # PinMemory's iterator: worker _pin_memory_loop, prefetch_factor 1
    if sfail is False or (sfail is None and rng.random() >= 0.12):
        return c
    f, n = c["f"], len(c["items"])
    cands = [0] + ([p for p in range(1, n + 1) if p % f == 0] if f > 0 else [])
    p = rng.choice(cands[1:] if len(cands) > 1 and rng.random() < 0.8 else cands)
    c["sfail"] = p
    if p == 0:
        c["hist"] = []
    return c


def _gen_case(rng, adv=None, delay=0.0) -> Dict[str, Any]:
    n = rng.choice([0, 1, 2, 3, 3, 4, 5, 6, 8])
    items = [rng.randrange(0, 50) for _ in range(n)]
    pf = rng.choice([1, 1, 2, 2, 3, 4])
    f = rng.choice([0, 1, 1, 2, 2, 3, 4])
    term = rng.choice(["stop", "stop", "error"])
    kind = rng.choice(["exhaust", "exhaust", "sd_every", "reset_mid", "reload_mid", "del_mid", "mixed"])
    hist: List[str] = []
    if kind == "exhaust":
        hist = ["next"] * (n + 1 + rng.randrange(0, 4))
    elif kind == "sd_every":
        hist = ["sd"]
        for _ in range(n + 2):
            hist += ["next", "sd"]
    elif kind == "reset_mid":
        j = rng.randrange(0, n + 2)
        hist = ["next"] * j + ["reset"] + ["next"] * (n + 2)
    elif kind == "reload_mid":
        j = rng.randrange(0, n + 2)
        hist = ["next"] * j + ["sd", "reload"] + ["next"] * (n + 2 - min(j, n))
    elif kind == "del_mid":
        j = rng.randrange(0, n + 2)
        hist = ["next"] * j + ["del"]
    else:
        for _ in range(rng.randrange(3, 16)):
            hist.append(rng.choice(["next", "next", "next", "next", "sd", "sd", "reset", "reload"]))
            if hist[-1] == "reload" and "sd" not in hist:
                hist[-1] = "sd"
        hist += ["next"] * rng.randrange(0, 4)
    return {"pf": pf, "f": f, "items": items, "term": term, "hist": hist,
            "sched": {"seed": rng.randrange(1 << 30), "adv": bool(rng.random() < 0.5) if adv is None else adv},
            "delay": delay}


def case_sig(case):
    return [case["pf"], case["f"], case["items"], case["term"], case["hist"], case["sched"], case.get("delay", 0.0), case.get("sfail"), case.get("worker")]


# --------------------------------------------------------------------------------------------------------------
# K-T: trace validation


def _kt_job(ctx: Ctx, case):
    r = run_case(case)
    if r.internal:
        ctx.note("kt_pf internal: " + r.internal[-300:])
        ctx.count("kt_pf.internal")
        return None
    trace, stale, bad = translate(r.events, r.gens)
    if stale:
        # the known C12 defect (an abandoned reader drives the shared source after reset): the per-generation source view of
        # the model does not apply; the oracle leg reports it
        ctx.count("kt_pf.skipped_reader_survived_reset")
        return None
    return {"case": case, "req": lean_request(case, r.gens, trace), "hang": r.hang, "tmo": r.n_timeouts}


def run_kt(ctx: Ctx, n: Optional[int] = None):
    n = n if n is not None else ctx.n(220, 4000)
    rng = ctx.sub_rng("pf_kt")
    cases = [gen_case(rng) for _ in range(n)]
    outs = [o for o in ctx.pmap(_kt_job, cases) if o is not None]
    answers = Driver().run([o["req"] for o in outs]) if outs else []
    for o, a in zip(outs, answers):
        case = o["case"]
        ctx.model_lines += len(o["req"]["trace"])
        if not a or not a.get("ok"):
            at = a.get("at") if isinstance(a, dict) else None
            ev = o["req"]["trace"][at] if isinstance(at, int) and at < len(o["req"]["trace"]) else None
            ctx.diverge("kt_pf", case, f"trace of the real {'PinMemory iterator' if case.get('worker') == 'pin' else 'Prefetcher'} rejected by TDV.PF at event {at} {ev}: "
                                       f"{(a or {}).get('why', (a or {}).get('error', a))}")
            continue
        ctx.traces_validated += 1
        nontrivial = a.get("ahead", 0) >= 2 or a.get("tmo", 0) > 0
        ctx.case("kt_pf", case_sig(case), nontrivial)
        if case.get("worker") == "pin":
            ctx.count("worker:pin")
        ctx.count("kt_pf.pf=%d" % case["pf"])
        ctx.count("kt_pf.f=%d" % case["f"])
        ctx.count("kt_pf.timeouts" if a.get("tmo", 0) > 0 else "kt_pf.no_timeouts")
        ctx.count("kt_pf.ahead=%d" % min(a.get("ahead", 0), 5))
        if nontrivial:
            ctx.sample({"leg": "kt_pf", "case": case, "events": a.get("steps"), "model_actions": a.get("actions"),
                        "timeouts": a.get("tmo"), "max_ahead": a.get("ahead")}, limit=3)


# --------------------------------------------------------------------------------------------------------------
# K-O: oracles on the real threads


def check_obs(case, obs) -> List[Tuple[str, str]]:
    """C04 / C06 / C11 oracle on the observation list of a history: every next() returns the next item of the reference
    stream of the current lineage (reset -> position 0, reload -> position of the remembered state_dict)."""
    out: List[Tuple[str, str]] = []
    sfail = case.get("sfail")
    if obs and obs[0][0] == "reset-error" or sfail == 0:
        if not (sfail == 0 and [tuple(o) for o in obs] == [("reset-error", "sd")]):
            out.append(("C11:wrong_terminal", f"initial reset(): expected {'the state_dict error' if sfail == 0 else 'success'}, got {obs[:1]}"))
        return out
    items, tk, _ = eff_stream(case, 0)   # bases of later generations are multiples of f, so due-ness is the same
    n = len(items)
    due = sfail is not None and case["f"] > 0 and 0 < sfail <= len(case["items"]) and sfail % case["f"] == 0
    term = ("e", "sd") if due else (("e", "src") if tk == "error" else ("s",))
    pos, ended, sd_pos, after_reload = 0, False, None, False
    gbase, sd_snap = 0, 0
    oi = 0
    for op in case["hist"]:
        if oi >= len(obs):
            break
        o = obs[oi]
        oi += 1
        if o[0] == "hang":
            out.append(("C11:hang", f"{op} #{oi} did not return: {o[1]}"))
            break
        if op == "next":
            exp = ("s",) if ended else (("i", items[pos]) if pos < n else term)
            if tuple(o) != exp:
                kind = "C06:resume_mismatch" if after_reload else ("C11:wrong_terminal" if (pos >= n or o[0] != "i") else "C04:wrong_item")
                out.append((kind, f"next() #{oi} at stream position {pos}: expected {exp}, got {tuple(o)}"))
                break
            if pos < n and not ended:
                pos += 1
            else:
                ended = True
        elif op == "sd":
            # C06: the state is a function of the consumer position only: (base + j*, m - j*), j* = f*floor(m/f)
            f, m = case["f"], pos - gbase
            j = f * (m // f) if f > 0 else 0
            if tuple(o) != ("sd", gbase + j, m - j):
                out.append(("C06:state_not_consumer_position",
                            f"state_dict() after {pos} items (generation base {gbase}): expected snapshot position {gbase + j}, "
                            f"steps {m - j}; got {tuple(o)[1:]}"))
                break
            sd_pos, sd_snap = pos, o[1]
        elif op == "reset":
            pos, ended, after_reload, gbase = 0, False, False, 0
        elif op == "reload":
            if o[0] != "reload":
                out.append(("C06:reload_failed", f"reset(state_dict) of a fresh node raised {o}"))
                break
            pos, ended, after_reload = (sd_pos if sd_pos is not None else 0), False, True
            gbase = sd_snap if sd_pos is not None else 0
        elif op == "del":
            break
    return out



def run_c06(case) -> List[Tuple[str, str]]:
    """C06: state_dict at EVERY consumer position (0 … n+1) of one epoch; each is loaded into a fresh node (fresh source) whose
    remainder must be the reference remainder.  All under one virtual schedule, the old node still alive meanwhile."""
    from torchdata.nodes import Prefetcher
    items, n = case["items"], len(case["items"])
    term = ("e", "src") if case["term"] == "error" else ("s",)
    out: List[Tuple[str, str]] = []
    sc = case["sched"]

    def pull(node, s, k):
        got = []
        for _ in range(k):
            s.begin_op()
            try:
                got.append(("i", next(node)))
            except StopIteration:
                got.append(("s",))
            except SrcErr:
                got.append(("e", "src"))
        return got

    import gc
    with Instr():
        with Session(sc["seed"], adversarial=bool(sc.get("adv")), log=False, op_budget=60.0) as s:
            gc.collect()
            gc.disable()
            try:
                node = make_node(case, Src(items, case["term"], 0.0))
                s.begin_op()
                node.reset()
                sds = [copy.deepcopy(node.state_dict())]
                for _ in range(n + 1):
                    pull(node, s, 1)
                    sds.append(copy.deepcopy(node.state_dict()))
                for m, sd in enumerate(sds):
                    node2 = make_node(case, Src(items, case["term"], 0.0))
                    s.begin_op()
                    node2.reset(copy.deepcopy(sd))
                    k = min(m, n)
                    exp = [("i", v) for v in items[k:]] + [term, ("s",)]
                    got = pull(node2, s, len(exp))
                    if got != exp:
                        out.append(("C06:resume_mismatch", f"state_dict after {m} next() calls = {sd}; a fresh node resumed from it "
                                                          f"yields {got}, expected {exp}"))
                        break
                    del node2
                    gc.collect()
                node = None
                gc.collect()
            except VHang as h:
                out.append(("C11:hang", f"during the C06 sweep: {h}"))
            finally:
                gc.enable()
    return out


# the known C12 defect, deterministic witness: reset() while the reader is inside a source slower than the two joins
WITNESS_SLOW_RESET = {"pf": 2, "f": 1, "items": [10, 11, 12, 13, 14], "term": "stop",
                      "hist": ["next", "reset", "next", "next", "next", "next", "next", "next", "next"],
                      "sched": {"seed": 3, "adv": False}, "delay": 1.5}

SLOW = 1.5   # virtual seconds per next(source): longer than the two 0.5 s joins of Prefetcher.reset()


def _ko_job(ctx: Ctx, job):
    kind, case = job
    fails: List[Tuple[str, str]] = []
    if kind == "c06":
        fails = run_c06(case)
        ctx.case("ko_pf_c06", case_sig(case), len(case["items"]) >= 2 and case["f"] != 1)
        ctx.count("ko_pf.c06")
        if case.get("worker") == "pin":
            ctx.count("worker:pin")
    else:
        r = run_case(case, probe_held=True, check_release=True)
        if r.internal:
            ctx.note("ko_pf internal: " + r.internal[-300:])
            ctx.count("ko_pf.internal")
            return [], case
        _, stale, _ = translate(r.events, r.gens)
        ctx.count("ko_pf." + kind)
        if r.max_inside > 1:
            fails.append(("C12:two_threads_in_source",
                          f"{r.max_inside} threads were inside next(source) of the same source node at once: Prefetcher.reset() "
                          f"gave up joining the old reader (join timeout 0.5 s, twice) and started a new reader"))
        elif stale:
            fails.append(("C12:abandoned_reader_drives_source",
                          "the reader thread of an abandoned iterator pulled from the source after reset() had started a new reader"))
        if r.max_held > case["pf"]:
            fails.append(("C12:held_exceeds", r.held_at or f"held {r.max_held} > prefetch_factor {case['pf']}"))
        if r.idle_held > case["pf"]:
            fails.append(("C12:held_exceeds", f"outside next(): {r.idle_held} results pulled and not yet returned, prefetch_factor {case['pf']}"))
        for l in r.leaks:
            fails.append(("C17:reader_not_released", l))
        if stale or r.max_inside > 1:
            ctx.count("ko_pf.stream_checks_skipped_after_known_defect")
            if r.hang:
                fails.append(("C11:hang", r.hang))
        else:
            fails += check_obs(case, r.obs)
        nontrivial = r.max_held >= 2 or r.n_timeouts > 0
        ctx.case("ko_pf", case_sig(case), nontrivial)
        if case.get("worker") == "pin":
            ctx.count("worker:pin")
        ctx.count("ko_pf.max_held=%d" % min(r.max_held, 5))
    return fails, case


def run_ko(ctx: Ctx, only: Optional[str] = None, n: Optional[int] = None):
    """`only`: property id ("C04", …): record only failures of that property (the caller's known-finding classifiers are per
    property); None records all."""
    n = n if n is not None else ctx.n(260, 5000)
    rng = ctx.sub_rng("pf_ko")
    jobs: List[Tuple[str, Any]] = []
    for _ in range(n):
        jobs.append(("rand", gen_case(rng)))
    for _ in range(max(4, n // 8)):
        c = gen_case(rng, adv=False, sfail=False)
        c["hist"] = []
        jobs.append(("c06", c))
    for _ in range(max(6, n // 6)):
        jobs.append(("sfail", gen_case(rng, sfail=True)))
    # slow sources in virtual time, reset mid-epoch: slower than the two joins (known defect), and faster (must be clean)
    jobs.append(("slow%.1f" % SLOW, copy.deepcopy(WITNESS_SLOW_RESET)))
    for d in (SLOW, 0.3):
        for _ in range(max(4, n // 30)):
            c = gen_case(rng, adv=False, delay=d, sfail=False)
            if len(c["items"]) < 3:
                c["items"] = c["items"] + [rng.randrange(50, 60) for _ in range(3 - len(c["items"]))]
            nn = len(c["items"])
            j = rng.randrange(1, nn)
            c["hist"] = ["next"] * j + ["reset"] + ["next"] * (nn + 2)
            jobs.append(("slow%.1f" % d, c))
    outs = ctx.pmap(_ko_job, jobs)
    for o in outs:
        if o is None:
            continue
        fails, case = o
        for kind, what in fails:
            ctx.count("ko_pf.fail." + kind)
            if only is None or kind.startswith(only + ":"):
                ctx.fail(kind, case, what)


def _slow_reset_region(f) -> bool:
    """The known finding is ONLY: a source whose next() takes longer than the two 0.5 s joins of Prefetcher.reset()
    (shutdown + __del__), so the old reader is still inside it when the source is reset.  The same symptom with a
    faster source is a different defect and must be reported."""
    if f.kind not in ("C12:two_threads_in_source", "C12:abandoned_reader_drives_source"):
        return False
    inp = f.inp if isinstance(f.inp, dict) else {}
    case = inp.get("case", inp)
    try:
        if float(case.get("delay", 0.0)) > 1.0:
            return True
        # adversarial schedules let ANY timed wait give up (a reader starved for longer than the joins): the same
        # finding - the joins in reset() are timed - reached without a slow source
        return bool((case.get("sched") or {}).get("adv"))
    except Exception:
        return False


KNOWN = {"reset-while-reader-in-slow-source": _slow_reset_region}


def replay(ctx: Ctx, payload) -> Tuple[bool, str]:
    """re-runs one stored input: a K-T divergence (`leg` = "kt_pf") or an oracle failure (`kind` = "Cxx:…")"""
    case = payload.get("input", payload.get("case"))
    if payload.get("leg") == "kt_pf":
        o = _kt_job(ctx, case)
        if o is None:
            return True, "trace not validated (the abandoned reader drove the source: known C12 region)"
        a = Driver().run([o["req"]])[0]
        return bool(a and a.get("ok")), str(a)
    kind = "c06" if not case.get("hist") and case.get("sfail") is None else "rand"
    fails, _ = _ko_job(ctx, (kind, case))
    want = payload.get("kind")
    hit = [f for f in fails if want is None or f[0] == want]
    return (not hit), ("; ".join(f"{k}: {w}" for k, w in hit) or "passes")


THEOREMS = [
    "TDV.PF.inv_reachable",
    "TDV.PF.readahead_bound",
    "TDV.PF.held_le",
    "TDV.PF.release_never_overflows",
    "TDV.PF.delivered_prefix",
    "TDV.PF.delivered_isPrefix",
    "TDV.PF.complete",
    "TDV.PF.stop_only_at_end",
    "TDV.PF.error_after_prefix",
    "TDV.PF.terminal_surfaced",
    "TDV.PF.snapshot_error_surfaced",
    "TDV.PF.state_tracks_consumer",
    "TDV.PF.state_closed_form_everywhere",
    "TDV.PF.progress",
    "TDV.PF.variant",
    "TDV.PF.next_after_end_prompt",
    "TDV.PF.stop_stable",
    "TDV.PF.released",
    "TDV.PF.reader_never_stuck",
    "TDV.PF.two_drivers_witness",
    "TDV.PF.single_driver_statement_false",
    "TDV.PF.single_driver_partial",
]
THEOREMS_BY_PROP = {
    "C04": ["TDV.PF.inv_reachable", "TDV.PF.delivered_prefix", "TDV.PF.delivered_isPrefix", "TDV.PF.complete", "TDV.PF.stop_only_at_end"],
    "C06": ["TDV.PF.inv_reachable", "TDV.PF.state_tracks_consumer", "TDV.PF.state_closed_form_everywhere"],
    "C11": ["TDV.PF.error_after_prefix", "TDV.PF.terminal_surfaced", "TDV.PF.snapshot_error_surfaced", "TDV.PF.progress", "TDV.PF.variant", "TDV.PF.next_after_end_prompt"],
    "C12": ["TDV.PF.readahead_bound", "TDV.PF.held_le", "TDV.PF.release_never_overflows", "TDV.PF.two_drivers_witness",
            "TDV.PF.single_driver_statement_false", "TDV.PF.single_driver_partial"],
    "C17": ["TDV.PF.stop_stable", "TDV.PF.released", "TDV.PF.reader_never_stuck", "TDV.PF.single_driver_partial"],
}
RULE = ("cases from one PRNG: prefetch_factor 1-4, snapshot_frequency 0-4, sources of 0-8 ints ending in StopIteration or an exception, "
        "optionally with a state_dict() that raises at a position where a snapshot is due (or at position 0 = reader start-up), "
        "consumer histories (next, state_dict at every position, exhaustion, extra next() after the end, reset mid-epoch, load into a "
        "new node, del), schedules: seeded random and adversarial timeouts; slow sources in virtual time (0.3 s and 1.5 s per item) across "
        "reset(). A validated trace / oracle run is non-trivial when the reader was at least one item ahead of the consumer "
        "(>= 2 results pulled and not yet processed) or at least one timeout fired; distinct by (configuration, history, schedule).")
EXPLANATION = ("Lean: TDV.PF is a small-step transition system of reader and consumer of _SingleThreadedMapper/_populate_queue/"
               "QueueSnapshotStore (one action per shared-object operation + timeout variants) with a generation layer for "
               "Prefetcher.reset; one invariant proved for every action sequence gives the permit accounting, ordering, completeness and "
               "the checkpoint closed form; progress/variant give termination of next(); released bounds the reader's exit; "
               "single_driver is refuted by a decide-checked run and proved when no join gives up. Tie: every event trace of the real "
               "threads under the virtual scheduler is replayed by the model as an acceptor (payloads, semaphore values, acquire and "
               "is_set results, popped versions, return values, get_state). Oracles: the same properties measured on the real threads.")
ASSUMPTIONS = [
    "threads are interleaved at the granularity of operations on shared objects (queue/semaphore/event/snapshot store/thread "
    "join/source); the virtual scheduler runs the real code at exactly that granularity",
    "the source's state_dict after j items is truthy and determines position j; next(source) returns (rLeave is always enabled)",
    "a timed wait only times out when the resource is unavailable at the deadline (CPython queue.Queue / Semaphore semantics)",
    "1 <= prefetch_factor for progress (prefetch_factor=0 is accepted by the constructor and can never make progress)",
    "within one generation the source is driven only by that generation's reader (what single_driver_partial provides); after a "
    "join gave up the per-generation source view no longer applies and such traces are not validated, the oracle reports them",
    "a source.state_dict() that raises where a snapshot is due is, for the protocol, the stream items[:p-1] + error "
    "(Cfg.withSnapErr): next(source)+state_dict() is the single reader action rLeave; K-T checks this against the real reader",
    "get_initial_snapshot's 60 s ACK_TIMEOUT does not expire (the reader is scheduled within 60 s of its start)",
]
