"""Prefetcher thread protocol (model `TDV.PF`): trace validation (K-T) and oracles on the real threads (K-O).

Called from the C04 / C06 / C11 / C12 / C17 check modules:

    from . import pf_trace
    pf_trace.run_kt(ctx)      # K-T: real `Prefetcher` under the virtual scheduler -> event trace -> Lean acceptor
    pf_trace.run_ko(ctx)      # K-O: oracles C04 / C06 / C11 / C12 / C17 under many schedules per case
    pf_trace.replay(ctx, payload)   # re-runs one failing input (`{"kind":…, "input":…}` as stored by ctx.fail)
    KNOWN, THEOREMS, LEAN_MODULES, RULE, EXPLANATION, ASSUMPTIONS

A *case* is a JSON-able dict
    {"pf","f","items":[ints],"term":"stop"|"error","hist":[op,…],"sched":{"seed","adv"},"delay":virtual seconds per source next()}
ops:  "next" | "sd" (state_dict, remembered) | "reset" (node.reset(): new epoch mid-stream) |
      "reload" (drop the node; fresh source + fresh Prefetcher; reset(last remembered state_dict)) | "del" (drop the node)

Instrumentation (nothing in /repo is modified): the virtual scheduler logs every primitive operation; in addition, for the
duration of a case, `_SingleThreadedMapper.__init__/__next__/get_state`, `QueueSnapshotStore.pop_version` and the name
`_populate_queue` inside torchdata.nodes.prefetch are wrapped so that they log generation starts, call returns, popped
versions and the return of the worker function.
"""
from __future__ import annotations

import copy
import functools
import re
import sys
from typing import Any, Dict, List, Optional, Tuple

sys.path.insert(0, "/repo")

from ..core import Ctx, Failure
from ..leanbridge import Driver
from .. import vsched
from ..vsched import Session, VHang, S

LEAN_MODULES = ["TorchDataVerif.Props.PF"]


class SrcErr(RuntimeError):
    pass


_SRC_CLS = None


def Src(items, term, delay=0.0):
    """Instrumented source node: logs enter/leave of next(), counts concurrent entries and results handed out."""
    global _SRC_CLS
    if _SRC_CLS is None:
        from torchdata.nodes import BaseNode

        class _Src(BaseNode):
            def __init__(self, items, term, delay):
                super().__init__()
                self.items, self.term, self.delay = list(items), term, delay
                self.pos = 0
                self.inside = 0
                self.max_inside = 0
                self.pulled_by: Dict[int, int] = {}  # id(VT) -> results handed out (items and the terminal)
                self.resets = 0

            def reset(self, initial_state=None):
                super().reset(initial_state)
                self.resets += 1
                self.pos = 0 if initial_state is None else initial_state["pos"]

            def next(self):
                s = S()
                me = s.me()
                self.inside += 1
                self.max_inside = max(self.max_inside, self.inside)
                s.ev("src", "enter", id(me))
                try:
                    if self.delay > 0:
                        s.switch(lambda: False, self.delay)
                    else:
                        s.switch()
                    self.pulled_by[id(me)] = self.pulled_by.get(id(me), 0) + 1
                    if self.pos < len(self.items):
                        v = self.items[self.pos]
                        self.pos += 1
                        s.ev("src", "leave", id(me), 0, v)
                        return v
                    if self.term == "error":
                        s.ev("src", "leave", id(me), 2, 0)
                        raise SrcErr("source failed")
                    s.ev("src", "leave", id(me), 1, 0)
                    raise StopIteration()
                finally:
                    self.inside -= 1

            def get_state(self):
                return {"pos": self.pos}

        _SRC_CLS = _Src
    return _SRC_CLS(items, term, delay)


def ref_results(case, base=0) -> List[tuple]:
    """reference: results of successive next() calls from source position `base`, up to and including the terminal"""
    out: List[tuple] = [("i", v) for v in case["items"][base:]]
    out.append(("e", "src") if case["term"] == "error" else ("s",))
    return out


# --------------------------------------------------------------------------------------------------------------
# instrumentation


def _pf_short(item):
    """canonical text of a queue payload `(item, idx)` / a snapshot-store entry `(version, snapshot)`"""
    from torchdata.nodes.exception_wrapper import ExceptionWrapper
    if isinstance(item, tuple) and len(item) == 2:
        a, b = item
        if isinstance(b, int) and not isinstance(b, bool):
            if isinstance(a, StopIteration):
                return "PF 1 0 %d" % b
            if isinstance(a, ExceptionWrapper):
                return "PF 2 0 %d" % b
            if isinstance(a, int) and not isinstance(a, bool):
                return "PF 0 %d %d" % (a, b)
        if isinstance(a, int) and isinstance(b, dict) and "pos" in b:
            return "PS %d %d" % (a, b["pos"])
        if isinstance(a, int) and isinstance(b, ExceptionWrapper):
            return "PS %d err" % a
    try:
        return repr(item)[:80]
    except Exception:
        return "<?>"


class Gen:
    """names of the shared objects and the reader thread of one `_SingleThreadedMapper`"""

    def __init__(self, idx, base, src):
        self.idx = idx
        self.base = base
        self.src = src
        self.names: Dict[str, str] = {}
        self.reader_vt = None
        self.created_at = 0     # index into sched.events


class Instr:
    """context manager: wraps the unlogged operations for the duration of a case"""

    def __init__(self):
        self.gens: List[Gen] = []

    def __enter__(self):
        import torchdata.nodes.map as M
        import torchdata.nodes.snapshot_store as SS
        import torchdata.nodes.prefetch as P
        self.M, self.SS, self.P = M, SS, P
        cls = M._SingleThreadedMapper
        self.o_init, self.o_next, self.o_state = cls.__init__, cls.__next__, cls.get_state
        self.o_pop = SS.QueueSnapshotStore.pop_version
        self.o_worker = P._populate_queue
        instr = self

        def init(it, *a, **k):
            ist = k.get("initial_state", a[4] if len(a) > 4 else None)
            src = k.get("source", a[0] if a else None)
            g = Gen(len(instr.gens), 0 if ist is None else ist["snapshot"]["pos"], src)
            instr.gens.append(g)
            s = vsched.CUR
            if s is not None:
                g.created_at = len(s.events)
                s.ev("gen", g.idx)
            try:
                return instr.o_init(it, *a, **k)
            finally:
                instr.capture(g, it)

        def nxt(it):
            s = vsched.CUR
            try:
                x = instr.o_next(it)
            except StopIteration:
                if s is not None and not s.closed:
                    s.ev("ret", 1, 0)
                raise
            except VHang:
                raise
            except vsched.VKill:
                raise
            except BaseException:
                if s is not None and not s.closed:
                    s.ev("ret", 2, 0)
                raise
            if s is not None and not s.closed:
                s.ev("ret", 0, x)
            return x

        def get_state(it):
            r = instr.o_state(it)
            s = vsched.CUR
            if s is not None and not s.closed:
                s.ev("state", r["snapshot"]["pos"], r["steps_since_snapshot"])
            return r

        def pop_version(store, version):
            r = instr.o_pop(store, version)
            s = vsched.CUR
            if s is not None and not s.closed:
                s.ev("pop", store._q.name, version, None if r is None else r["pos"])
            return r

        @functools.wraps(self.o_worker)
        def worker(source, q, *a, **k):
            try:
                return instr.o_worker(source, q, *a, **k)
            finally:
                s = vsched.CUR
                if s is not None and not s.closed and s.me() is not None and not s.me().killed:
                    s.ev("rexit", q.name)

        def shutdown(it):
            s = vsched.CUR
            ev = getattr(it, "_stop_event", None)
            live = s is not None and not s.closed and getattr(ev, "s", None) is s
            if live:
                s.ev("shut", ev.name)
            try:
                return instr.o_shutdown(it)
            finally:
                if live and not s.closed:
                    s.ev("shutend")

        self.o_shutdown = cls._shutdown
        self.o_short = vsched._short
        cls.__init__, cls.__next__, cls.get_state, cls._shutdown = init, nxt, get_state, shutdown
        SS.QueueSnapshotStore.pop_version = pop_version
        P._populate_queue = worker
        vsched._short = _pf_short
        return self

    def capture(self, g: Gen, it):
        for role, attr in (("q", "_q"), ("sem", "_sem"), ("stop", "_stop_event")):
            o = getattr(it, attr, None)
            if o is not None and getattr(o, "name", None) is not None:
                g.names[o.name] = role
        st = getattr(it, "_snapshot_store", None)
        if st is not None:
            g.names[st._q.name] = "store"
        th = getattr(it, "_thread", None)
        if th is not None and getattr(th, "vt", None) is not None:
            g.reader_vt = th.vt

    def __exit__(self, *a):
        cls = self.M._SingleThreadedMapper
        cls.__init__, cls.__next__, cls.get_state, cls._shutdown = self.o_init, self.o_next, self.o_state, self.o_shutdown
        vsched._short = self.o_short
        self.SS.QueueSnapshotStore.pop_version = self.o_pop
        self.P._populate_queue = self.o_worker
        return False


def translate(events: List[tuple], gens: List[Gen]):
    """scheduler events -> one model trace over all iterator generations.
    Returns (trace, stale, bad): stale = a reader of an old generation drove the SAME source object after a newer
    generation had been created (the known C12 defect: the per-generation source view of the model no longer applies)."""
    by_name: Dict[str, Tuple[int, str]] = {}
    by_vt: Dict[int, int] = {}
    for g in gens:
        for n, role in g.names.items():
            by_name[n] = (g.idx, role)
        if g.reader_vt is not None:
            by_vt[id(g.reader_vt)] = g.idx
    trace: List[list] = []
    bad: List[str] = []
    stale = False
    cur = -1
    in_shut = saw_join = skip_shut = False
    for e in events:
        tname, op = e[0], e[1]
        main = tname == "main"
        if op == "gen":
            cur = e[2]
            if cur > 0:
                trace.append(["c", "reset", cur])
            continue
        if op == "start":
            continue
        if op == "shut":
            gi = by_name.get(e[2], (cur,))[0]
            if gi != cur:
                skip_shut = True   # late `__del__` of an abandoned iterator: `_shutdown` again (stop is already set)
            else:
                in_shut, saw_join = True, False
            continue
        if op == "shutend":
            if skip_shut:
                skip_shut = False
                continue
            if in_shut and not saw_join:
                trace.append(["c", "join", 1])
            in_shut = False
            continue
        if skip_shut and main:
            if not (op in ("set", "join")):
                bad.append("unexpected consumer event inside a late _shutdown: %r" % (e,))
            continue
        if op == "join":
            if main:
                saw_join = True
                trace.append(["c", "join", int(bool(e[3]))])
            continue
        if op == "src":
            gi = by_vt.get(e[3])
            if gi is None:
                bad.append("source driven by an unknown thread: %r" % (e,))
                continue
            if gi != cur and 0 <= cur < len(gens) and gens[gi].src is gens[cur].src:
                stale = True
            trace.append(["r%d" % gi, "enter"] if e[2] == "enter" else ["r%d" % gi, "leave", e[4], e[5]])
            continue
        if op in ("ret", "state"):
            trace.append(["c", op] + [int(x) for x in e[2:]])
            continue
        if op == "rexit":
            if e[2] in by_name:
                trace.append(["r%d" % by_name[e[2]][0], "exit"])
            continue
        obj = e[2] if len(e) > 2 else None
        if obj not in by_name:
            continue  # objects of other nodes
        gi, role = by_name[obj]
        th = "c" if main else "r%d" % gi
        if main and gi != cur:
            bad.append("consumer touches generation %d while generation %d is current: %r" % (gi, cur, e))
        if role == "store":
            if op == "put":
                f = str(e[3]).split()
                if len(f) != 3 or f[0] != "PS":
                    bad.append("unparsed store payload %r" % (e,))
                elif int(f[1]) == -1:
                    trace.append(["r%d" % gi, "init"])
                else:
                    trace.append(["r%d" % gi, "append", int(f[1]), int(f[2])])
            elif op == "get":
                trace.append(["c", "boot", 0 if e[3] == "empty" else 1])
            elif op == "pop":
                trace.append(["c", "pop", e[3], 0 if e[4] is None else 1, 0 if e[4] is None else e[4]])
        elif role == "stop":
            if op == "is_set":
                trace.append([th, "isset", int(e[3])])
            elif op == "set":
                trace.append(["c", "set"])
        elif role == "sem":
            if op == "acquire":
                trace.append(["r%d" % gi, "acq", int(e[3])])
            elif op == "release":
                trace.append(["c", "release", e[3]])
        elif role == "q":
            if e[3] == "empty":
                trace.append([th, "get", 3])
                continue
            f = str(e[3]).split()
            if len(f) != 4 or f[0] != "PF":
                bad.append("unparsed payload %r" % (e,))
                continue
            trace.append([th, op, int(f[1]), int(f[2]), int(f[3])])
    if bad:
        trace.append(["?", "; ".join(bad)[:300]])
    return trace, stale, bad


def lean_request(case, gens: List[Gen], trace) -> Dict[str, Any]:
    return {"m": "pf", "cfg": {"pf": case["pf"], "f": case["f"]},
            "gens": [{"src": list(case["items"][g.base:]), "term": case["term"], "base": g.base, "start_err": False}
                     for g in gens],
            "trace": trace}


# --------------------------------------------------------------------------------------------------------------
# running one case on the real code


class Run:
    """result of one case"""

    def __init__(self):
        self.obs: List[Any] = []          # per op: ("i", x) | ("e", kind) | ("s",) | ("sd", pos, steps) | ("reset",) | ("hang", msg) …
        self.events: List[tuple] = []
        self.gens: List[Gen] = []
        self.hang: Optional[str] = None
        self.max_held = 0                 # max over switch points of (results pulled by a reader − messages taken by its consumer)
        self.held_at: Optional[str] = None
        self.idle_held = 0                # max at operation boundaries of (results pulled − results returned by next())
        self.max_inside = 0               # max number of threads inside one source node's next()
        self.leaks: List[str] = []
        self.sds: List[Any] = []
        self.n_timeouts = 0
        self.n_switch = 0
        self.internal: Optional[str] = None
        self.srcs: List[Any] = []


def _err_kind(e: BaseException) -> str:
    if isinstance(e, SrcErr):
        return "src"
    return type(e).__name__


def run_case(case, probe_held=False, check_release=False, op_budget=60.0) -> Run:
    """Runs the consumer history of `case` on the real Prefetcher under the virtual scheduler."""
    from torchdata.nodes import Prefetcher
    r = Run()
    sc = case["sched"]
    delay = float(case.get("delay", 0.0))
    with Instr() as instr:
        with Session(sc["seed"], adversarial=bool(sc.get("adv")), log=True, op_budget=op_budget) as s:
            src = Src(case["items"], case["term"], delay)
            r.srcs.append(src)
            node = Prefetcher(src, prefetch_factor=case["pf"], snapshot_frequency=case["f"])
            st = {"ev_i": 0, "taken": {}, "rets": 0}

            def scan():
                evs = s.events
                i = st["ev_i"]
                while i < len(evs):
                    e = evs[i]
                    i += 1
                    if e[0] == "main" and e[1] == "get" and len(e) > 3 and e[3] != "empty" and str(e[3]).startswith("PF"):
                        st["taken"][e[2]] = st["taken"].get(e[2], 0) + 1
                st["ev_i"] = i

            def hook(sched):
                scan()
                for g in instr.gens:
                    if g.reader_vt is None:
                        continue
                    qn = next((n for n, role in g.names.items() if role == "q"), None)
                    pulled = g.src.pulled_by.get(id(g.reader_vt), 0)
                    h = pulled - st["taken"].get(qn, 0)
                    if h > r.max_held:
                        r.max_held = h
                        if h > case["pf"] and r.held_at is None:
                            r.held_at = (f"generation {g.idx}: {pulled} results pulled from the source, "
                                         f"{st['taken'].get(qn, 0)} taken by the consumer, prefetch_factor={case['pf']}")

            if probe_held:
                s.hooks.append(hook)

            def release_check(what):
                """C17: every reader thread of an abandoned generation exits within 5 virtual seconds"""
                if not check_release:
                    return
                t0 = s.clock
                s.begin_op()
                while s.clock - t0 < 5.0 and any(v.state != "done" for v in old_vts()):
                    s.switch(lambda: False, 0.25)
                    s.begin_op()
                left = [v.name for v in old_vts() if v.state != "done"]
                if left:
                    r.leaks.append(f"{what}: {len(left)} reader thread(s) of abandoned iterators still alive after "
                                   f"{s.clock - t0:.2f} virtual seconds")

            cur_live = {"on": True}

            def old_vts():
                gs = instr.gens if not cur_live["on"] else instr.gens[:-1]
                return [g.reader_vt for g in gs if g.reader_vt is not None]

            import gc
            gc.collect()
            gc.disable()
            try:
                s.begin_op()
                node.reset()
                for op in case["hist"]:
                    s.begin_op()
                    if op == "next":
                        try:
                            x = next(node)
                            r.obs.append(("i", x))
                        except StopIteration:
                            r.obs.append(("s",))
                        except SrcErr as e:
                            r.obs.append(("e", _err_kind(e)))
                        except VHang:
                            raise
                        except Exception as e:  # noqa
                            r.obs.append(("e", _err_kind(e)))
                        if probe_held and instr.gens and instr.gens[-1].reader_vt is not None:
                            g = instr.gens[-1]
                            rets = sum(1 for e in s.events[g.created_at:] if e[0] == "main" and e[1] == "ret" and (e[2] != 1 or True))
                            r.idle_held = max(r.idle_held, g.src.pulled_by.get(id(g.reader_vt), 0) - rets)
                    elif op == "sd":
                        sd = node.state_dict()
                        r.sds.append(copy.deepcopy(sd))
                        r.obs.append(("sd", sd["snapshot"]["pos"], sd["steps_since_snapshot"]))
                    elif op == "reset":
                        node.reset()
                        gc.collect()   # an exhausted iterator is kept alive by its StopIteration traceback cycle
                        r.obs.append(("reset",))
                        release_check("reset()")
                    elif op == "reload":
                        sd = copy.deepcopy(r.sds[-1]) if r.sds else None
                        del node
                        gc.collect()
                        src = Src(case["items"], case["term"], delay)
                        r.srcs.append(src)
                        node = Prefetcher(src, prefetch_factor=case["pf"], snapshot_frequency=case["f"])
                        try:
                            node.reset(sd)
                            r.obs.append(("reload",))
                        except VHang:
                            raise
                        except Exception as e:  # noqa
                            r.obs.append(("reload-error", _err_kind(e)))
                        release_check("del + new node")
                    elif op == "del":
                        del node
                        node = None
                        gc.collect()
                        cur_live["on"] = False
                        r.obs.append(("del",))
                        release_check("del")
                        break
                if check_release and node is not None and r.obs and r.obs[-1] in (("s",), ("e", "src")):
                    cur_live["on"] = False
                    release_check("exhaustion")
            except VHang as h:
                r.hang = str(h)
                r.obs.append(("hang", str(h)))
            except Exception as e:  # machinery or unexpected library error: reported by the caller
                import traceback
                r.internal = traceback.format_exc()[-800:]
            finally:
                gc.enable()
            r.events = list(s.events)
            r.gens = list(instr.gens)
            r.n_timeouts = s.n_timeouts
            r.n_switch = s.n_switch
            r.max_inside = max(x.max_inside for x in r.srcs)
            node = None
            gc.collect()
    return r


# --------------------------------------------------------------------------------------------------------------
# generators


def gen_case(rng, adv=None, delay=0.0) -> Dict[str, Any]:
    n = rng.choice([0, 1, 2, 3, 3, 4, 5, 6, 8])
    items = [rng.randrange(0, 50) for _ in range(n)]
    pf = rng.choice([1, 1, 2, 2, 3, 4])
    f = rng.choice([0, 1, 1, 2, 2, 3, 4])
    term = rng.choice(["stop", "stop", "error"])
    kind = rng.choice(["exhaust", "exhaust", "sd_every", "reset_mid", "reload_mid", "del_mid", "mixed"])
    hist: List[str] = []
    if kind == "exhaust":
        hist = ["next"] * (n + 1 + rng.randrange(0, 4))
    elif kind == "sd_every":
        hist = ["sd"]
        for _ in range(n + 2):
            hist += ["next", "sd"]
    elif kind == "reset_mid":
        j = rng.randrange(0, n + 2)
        hist = ["next"] * j + ["reset"] + ["next"] * (n + 2)
    elif kind == "reload_mid":
        j = rng.randrange(0, n + 2)
        hist = ["next"] * j + ["sd", "reload"] + ["next"] * (n + 2 - min(j, n))
    elif kind == "del_mid":
        j = rng.randrange(0, n + 2)
        hist = ["next"] * j + ["del"]
    else:
        for _ in range(rng.randrange(3, 16)):
            hist.append(rng.choice(["next", "next", "next", "next", "sd", "sd", "reset", "reload"]))
            if hist[-1] == "reload" and "sd" not in hist:
                hist[-1] = "sd"
        hist += ["next"] * rng.randrange(0, 4)
    return {"pf": pf, "f": f, "items": items, "term": term, "hist": hist,
            "sched": {"seed": rng.randrange(1 << 30), "adv": bool(rng.random() < 0.5) if adv is None else adv},
            "delay": delay}


def case_sig(case):
    return [case["pf"], case["f"], case["items"], case["term"], case["hist"], case["sched"], case.get("delay", 0.0)]


# --------------------------------------------------------------------------------------------------------------
# K-T: trace validation


def _kt_job(ctx: Ctx, case):
    r = run_case(case)
    if r.internal:
        ctx.note("kt_pf internal: " + r.internal[-300:])
        ctx.count("kt_pf.internal")
        return None
    trace, stale, bad = translate(r.events, r.gens)
    if stale:
        # the known C12 defect (an abandoned reader drives the shared source after reset): the per-generation source view of
        # the model does not apply; the oracle leg reports it
        ctx.count("kt_pf.skipped_reader_survived_reset")
        return None
    return {"case": case, "req": lean_request(case, r.gens, trace), "hang": r.hang, "tmo": r.n_timeouts}


def run_kt(ctx: Ctx, n: Optional[int] = None):
    n = n if n is not None else ctx.n(220, 4000)
    rng = ctx.sub_rng("pf_kt")
    cases = [gen_case(rng) for _ in range(n)]
    outs = [o for o in ctx.pmap(_kt_job, cases) if o is not None]
    answers = Driver().run([o["req"] for o in outs]) if outs else []
    for o, a in zip(outs, answers):
        case = o["case"]
        ctx.model_lines += len(o["req"]["trace"])
        if not a or not a.get("ok"):
            at = a.get("at") if isinstance(a, dict) else None
            ev = o["req"]["trace"][at] if isinstance(at, int) and at < len(o["req"]["trace"]) else None
            ctx.diverge("kt_pf", case, f"trace of the real Prefetcher rejected by TDV.PF at event {at} {ev}: "
                                       f"{(a or {}).get('why', (a or {}).get('error', a))}")
            continue
        ctx.traces_validated += 1
        nontrivial = a.get("ahead", 0) >= 2 or a.get("tmo", 0) > 0
        ctx.case("kt_pf", case_sig(case), nontrivial)
        ctx.count("kt_pf.pf=%d" % case["pf"])
        ctx.count("kt_pf.f=%d" % case["f"])
        ctx.count("kt_pf.timeouts" if a.get("tmo", 0) > 0 else "kt_pf.no_timeouts")
        ctx.count("kt_pf.ahead=%d" % min(a.get("ahead", 0), 5))
        if nontrivial:
            ctx.sample({"leg": "kt_pf", "case": case, "events": a.get("steps"), "model_actions": a.get("actions"),
                        "timeouts": a.get("tmo"), "max_ahead": a.get("ahead")}, limit=3)
