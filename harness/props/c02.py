"""C02 — nodes: a checkpoint at any item resumes the exact remaining stream (root-node API; the Loader wrapper
is checked under C13).

Legs
  kd_seq     K-D: random pipelines (depth <= 4) over the real sequential operators vs the Lean model, with op lists
             over next / get (state_dict) / reset_none / reset_tok i / fresh (a newly built pipeline object that is
             then loaded with an earlier token).
  kd_thr     the same for pipelines with a Prefetcher / ParallelMapper with workers (thread and virtual-process method),
             under the virtual scheduler with a schedule drawn per case.
  ko_resume  K-O: for each generated pipeline, each of the first two epochs and EVERY k (0 .. len, and after the
             stop): sd = state_dict() after k items -> freshly built identical pipeline -> reset(sd) -> the rest of
             the epoch and the whole next epoch equal the uninterrupted run.
  ko_chain   K-O: resume at k, take j more items, checkpoint again, resume in a third pipeline.
  ko_thr     ko_resume (+ chains at two random k) for pipelines with threaded operators, three schedules per pipeline
             (adversarial timeouts on/off, starved reader / starved consumer): the whole every-k sweep of one
             (pipeline, schedule) runs in one virtual-scheduler session.
"""
from __future__ import annotations

import copy
from typing import Any, Dict, List, Optional, Tuple

from ..core import Ctx
from ..leanbridge import Driver
from . import nodes_common as nc

THEOREMS = [
    "TDV.Node.listSource_lawful",
    "TDV.Node.samplerNode_lawful",
    "TDV.Node.statefulSource_lawful",
    "TDV.Node.mapper_lawful",
    "TDV.Node.batcher_lawful",
    "TDV.Node.filter_lawful",
    "TDV.Node.unbatcher_not_lawful",
    "TDV.Node.buffered_not_lawful",
    "TDV.Node.unbatcher_lawful_partial",
    "TDV.Node.buffered_lawful_partial",
    "TDV.Node.prebatchMapper_lawful",
    "TDV.Node.built_lawful",
    # the Loader layer on top of a Lawful root (model TDV.Loader, proved in Props/C13.lean)
    "TDV.Loader.resume_exact",
    "TDV.Loader.resume_exact_obs",
    "TDV.Loader.resume_exact_end",
]
LEAN_MODULES = ["TorchDataVerif.Props.C02", "TorchDataVerif.Props.C13"]
RULE = ("pipelines as in C04 (leaf under 0..4 operators, lengths 0..7, None/0/empty-list items). K-D cases: random op lists "
        "with state_dict / reset(state) / fresh-object ops, errors included. K-O cases: pipelines that never raise; every epoch "
        "e in {0,1} and every k in 0..len(epoch)+1 (len+1 = after StopIteration was observed) is one case; chains add every "
        "(k, j). A case is non-trivial when the pipeline has at least one operator above the leaf and the epoch has at least "
        "two items; distinct by (pipeline description, e, k[, j]).")
EXPLANATION = ("Lean: every combinator preserves `Lawful` (NodeCore): state_dict is transparent and loading the state taken at any "
               "reachable point into any (also a freshly built) pipeline is bisimilar to continuing, hence the same items for the rest "
               "of the epoch, all later epochs and all later checkpoint/resume chains; for Unbatcher and Prefetcher/ParallelMapper this "
               "is proved for pipelines that never raise (the full statement is refuted in Lean on two concrete pipelines whose "
               "checkpoint is taken after an exception). Tie: differential run against the model driver. Oracle: every k on the real "
               "operators.")
ASSUMPTIONS = [
    "state dicts are deep-copied when taken (serialisation); aliasing of live objects is C08's subject",
    "checkpoints are taken from pipelines that have not raised (see unbatcher_not_lawful / buffered_not_lawful for what happens otherwise)",
    "Prefetcher / ParallelMapper with workers run under the virtual scheduler (harness/vsched.py), schedule = part of the case; "
    "K-D compares them with the sequential abstraction `buffered`; a ParallelMapper with workers is only generated over "
    "sub-pipelines that cannot raise (C11)",
]
KNOWN: Dict[str, Any] = {}

# pipelines on which a checkpoint taken AFTER an exception does not resume like the uninterrupted run
# (the Lean negation witnesses); replayable with kind "resume_after_error"
AFTER_ERROR_WITNESSES = [
    {"pipe": {"op": "unbatch", "src": {"op": "map", "f": "err_if_3", "src": {"op": "list", "items": [[1], 3, [2]]}}},
     "ops": ["reset_none", "next", "next", "get", "next", "fresh", ["reset_tok", 0], "next"]},
    {"pipe": {"op": "buffered", "sf": 1, "pf": 2, "src": {"op": "map", "f": "err_if_3", "src": {"op": "list", "items": [1, 3, 5]}}},
     "ops": ["reset_none", "next", "next", "get", "next", "fresh", ["reset_tok", 0], "next", "next"]},
]


def _has_item(obs) -> bool:
    return any(isinstance(o, dict) and "i" in o for o in obs)


def kd_leg(ctx: Ctx, n: int):
    from . import c04
    extra = [dict(w, sched={"seed": i, "adv": False, "weights": None}) for i, w in enumerate(AFTER_ERROR_WITNESSES)]
    c04.kd_leg(ctx, n, True, extra=extra)


# --------------------------------------------------------------------------------------------------
# oracle: one (pipeline, schedule) sweep in one session


class _Bad(Exception):
    def __init__(self, where, msg):
        super().__init__(msg)
        self.where = where


def _drain(s, node, limit=10000) -> List[Any]:
    out = []
    for _ in range(limit):
        s.begin_op()
        try:
            out.append(nc.canon_item(next(node)))
        except StopIteration:
            return out
    out.append("<no stop>")
    return out


def sweep(d, sched, chain_seed: int, all_chains: bool, stats: Optional[Dict[str, int]] = None) -> Tuple[bool, str, Dict[str, Any]]:
    """Uninterrupted run of 3 epochs; for e in {0,1}: a saving run taking state_dict() before item 0, after every item
    and after the stop; for EVERY such point k: fresh pipeline <- reset(sd_k): rest of the epoch and the next epoch
    must equal the uninterrupted run; chains: resume at k, j more items, state_dict(), third pipeline."""
    import random
    from .. import vsched
    crng = random.Random(chain_seed)
    nodes: List[Any] = []
    where: Dict[str, Any] = {}
    stats = stats if stats is not None else {}

    def build():
        n = nc.build_real(d)
        nodes.append(n)
        return n

    def drop(n):
        nc.shutdown(n)
        if n in nodes:
            nodes.remove(n)

    try:
        with nc.session(sched, nodes) as s:
            node = build()
            eps = []
            for _ in range(3):
                s.begin_op()
                node.reset()
                eps.append(_drain(s, node))
            drop(node)
            node = None

            def resume(sd, want_rest, want_next, j=None):
                n2 = build()
                try:
                    s.begin_op()
                    n2.reset(copy.deepcopy(sd))
                    if j is not None:
                        got = []
                        for _ in range(j):
                            s.begin_op()
                            got.append(nc.canon_item(next(n2)))
                        if got != want_rest[:j]:
                            raise _Bad(where, f"after resume the next {j} items are {got}, expected {want_rest[:j]}")
                        s.begin_op()
                        return copy.deepcopy(n2.state_dict())
                    rest = _drain(s, n2)
                    if rest != want_rest:
                        raise _Bad(where, f"resumed pipeline yields {rest} for the rest of the epoch, uninterrupted run yields {want_rest}")
                    s.begin_op()
                    n2.reset()
                    nxt = _drain(s, n2)
                    if nxt != want_next:
                        raise _Bad(where, f"epoch after the resumed one yields {nxt}, uninterrupted run yields {want_next}")
                    return None
                except StopIteration:
                    raise _Bad(where, "resumed pipeline stops early")
                finally:
                    drop(n2)

            for e in (0, 1):
                where.update(e=e, k=0, j=None)
                node = build()
                for j in range(e):
                    s.begin_op()
                    node.reset()
                    got = _drain(s, node)
                    if got != eps[j]:
                        raise _Bad(where, f"saving run: epoch {j} yields {got}, uninterrupted run {eps[j]}")
                s.begin_op()
                node.reset()
                s.begin_op()
                sds = [copy.deepcopy(node.state_dict())]
                for k, want in enumerate(eps[e]):
                    where.update(k=k)
                    s.begin_op()
                    try:
                        got = nc.canon_item(next(node))
                    except StopIteration:
                        raise _Bad(where, f"saving run with state_dict() after every item stops after {k} items of epoch {e}; uninterrupted run yields {eps[e]}")
                    if got != want:
                        raise _Bad(where, f"saving run with state_dict() after every item yields {got!r} as item {k} of epoch {e}; uninterrupted run yields {want!r}")
                    s.begin_op()
                    sds.append(copy.deepcopy(node.state_dict()))
                s.begin_op()
                try:
                    x = next(node)
                    raise _Bad(where, f"saving run yields an extra item {x!r} after epoch {e}")
                except StopIteration:
                    pass
                s.begin_op()
                sds.append(copy.deepcopy(node.state_dict()))
                drop(node)
                node = None
                chain_ks = set(range(len(sds))) if all_chains else set(crng.sample(range(len(sds)), min(2, len(sds))))
                for k in range(len(sds)):
                    rest = eps[e][min(k, len(eps[e])):]
                    where.update(k=k, j=None)
                    resume(sds[k], rest, eps[e + 1])
                    stats["points"] = stats.get("points", 0) + 1
                    if k in chain_ks and rest:
                        j = crng.randrange(0, len(rest) + 1)
                        where.update(j=j)
                        sd2 = resume(sds[k], rest, eps[e + 1], j=j)
                        where.update(j=(j, "second resume"))
                        resume(sd2, rest[j:], eps[e + 1])
                        stats["chains"] = stats.get("chains", 0) + 1
            stats["len0"] = len(eps[0])
        return True, "ok", {}
    except _Bad as b:
        return False, str(b), dict(b.where)
    except vsched.VHang as h:
        return False, f"hang: {h}", dict(where)
    except Exception as ex:  # noqa: BLE001
        return False, f"pipeline raised {type(ex).__name__}: {ex}", dict(where)


def _ko_one(ctx: Ctx, job):
    d = job["pipe"]
    inf = nc.info(d)
    leg = "ko_thr" if inf["threaded"] else "ko_resume"
    for sc in job["scheds"]:
        stats: Dict[str, int] = {}
        inp = {"pipe": d, "sched": sc, "chain_seed": job["chain_seed"], "all_chains": not inf["threaded"]}
        ok, msg, where = sweep(d, sc, job["chain_seed"], not inf["threaded"], stats)
        nontriv = inf["size"] > 1 and stats.get("len0", 2) >= 2
        # one case per checkpoint position (and per chain)
        for i in range(max(1, stats.get("points", 0))):
            ctx.case(leg, [inp, "k", i], nontriv)
        for i in range(stats.get("chains", 0)):
            ctx.case("ko_chain", [inp, "c", i], nontriv)
        ctx.count("ko_sig:" + nc.pipe_sig(d).split("(")[0])
        if inf["threaded"]:
            ctx.count("sched:" + ("adv" if sc["adv"] else "plain") + ("/starve_" + ("main" if "main" in sc["weights"] else "reader") if sc["weights"] else ""))
        if not ok:
            ctx.fail("resume_sweep", inp, f"epoch {where.get('e')}, checkpoint after {where.get('k')} items"
                     + (f", then {where.get('j')} more" if where.get("j") is not None else "") + ": " + msg)
            break
    return leg


def ko_leg(ctx: Ctx, n: int):
    jobs = []
    for _ in range(n):
        d = nc.gen_pipe(ctx.rng, 4, allow_err=False, p_thread=0.4, maxlen=6)
        thr = nc.info(d)["threaded"]
        jobs.append({"pipe": d, "scheds": [nc.gen_sched(ctx.rng) for _ in range(3 if thr else 1)],
                     "chain_seed": ctx.rng.randrange(1 << 30)})
    for j in jobs[:2]:
        ctx.sample({"leg": "ko", "pipe": j["pipe"], "sched": j["scheds"][0]})
    ctx.pmap(_ko_one, jobs)


def run(ctx: Ctx):
    kd_leg(ctx, ctx.n(1100, 30000))
    ko_leg(ctx, ctx.n(550, 8000))


def escalate(ctx: Ctx):
    run(ctx)


def replay(ctx: Ctx, payload) -> Tuple[bool, str]:
    kind, inp = payload["kind"], payload["input"]
    if kind == "resume_sweep":
        ok, msg, where = sweep(inp["pipe"], inp.get("sched"), inp.get("chain_seed", 0), inp.get("all_chains", True))
        return ok, (msg if ok else f"epoch {where.get('e')}, checkpoint after {where.get('k')} items: {msg}")
    if kind == "pipeline_ops":
        try:
            obs = nc.run_ops_real(inp["pipe"], inp["ops"], inp.get("sched"))
        except Exception as e:  # noqa: BLE001
            return False, f"{type(e).__name__}: {e}"
        if obs and isinstance(obs[-1], str) and obs[-1].startswith("hang"):
            return False, obs[-1]
        return True, "ok"
    if kind == "resume_after_error":
        # ops = prefix up to "get", one more next on the uninterrupted object, then fresh + reset_tok + next(s)
        obs = nc.run_ops_real(inp["pipe"], inp["ops"], inp.get("sched"))
        i_get = inp["ops"].index("get")
        cont = obs[i_get + 1]
        i_res = inp["ops"].index("fresh") + 1
        resumed = obs[i_res:i_res + 2]
        if resumed[0] == "raise" or (len(resumed) > 1 and resumed[1] != cont):
            return False, f"uninterrupted pipeline continues with {cont}, pipeline resumed from the state taken after the exception: {resumed}"
        return True, "resumed like the uninterrupted run"
    if kind in ("loader_history", "api_history"):
        # Loader-level witnesses of C02 live in the Loader check (M4, harness/props/c13.py)
        from . import c13
        return c13.replay(ctx, payload)
    return True, "unknown kind"


# ------------------------------------------------------------------------------------------------
# theorem-only parts: end-to-end composition with the Loader model, and the refinement link between the thread
# protocols (PF / PM) and the sequential abstraction `buffered` used above
from . import _compose, e2en_parts, refine_parts  # noqa: E402

_compose.extend(globals(), [
    _compose.theorem_part("e2en", e2en_parts.THEOREMS_BY_PROP.get("C02", []), e2en_parts.LEAN_MODULES),
    _compose.theorem_part("refine", refine_parts.THEOREMS_BY_PROP.get("C02", []), refine_parts.LEAN_MODULES),
])
