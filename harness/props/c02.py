"""C02 — nodes: a checkpoint at any item resumes the exact remaining stream (root-node API; the Loader wrapper
is checked under C13).

Legs
  kd_seq     K-D: random pipelines (depth <= 4) over the real sequential operators vs the Lean model, with op lists
             over next / get (state_dict) / reset_none / reset_tok i / fresh (a newly built pipeline object that is
             then loaded with an earlier token).
  kd_thr     the same for a few pipelines with a Prefetcher / threaded in-order ParallelMapper (real threads).
  ko_resume  K-O: for each generated pipeline, each of the first two epochs and EVERY k (0 .. len, and after the
             stop): sd = state_dict() after k items -> freshly built identical pipeline -> reset(sd) -> the rest of
             the epoch and the whole next epoch equal the uninterrupted run.
  ko_chain   K-O: resume at k, take j more items, checkpoint again, resume in a third pipeline.
  ko_thr     ko_resume for a few pipelines with real threads.
"""
from __future__ import annotations

import copy
from typing import Any, Dict, List, Optional, Tuple

from ..core import Ctx
from ..leanbridge import Driver
from . import nodes_common as nc

THEOREMS = [
    "TDV.Node.listSource_lawful",
    "TDV.Node.samplerNode_lawful",
    "TDV.Node.statefulSource_lawful",
    "TDV.Node.mapper_lawful",
    "TDV.Node.batcher_lawful",
    "TDV.Node.filter_lawful",
    "TDV.Node.unbatcher_not_lawful",
    "TDV.Node.buffered_not_lawful",
    "TDV.Node.unbatcher_lawful_partial",
    "TDV.Node.buffered_lawful_partial",
    "TDV.Node.prebatchMapper_lawful",
    "TDV.Node.built_lawful",
    # the Loader layer on top of a Lawful root (model TDV.Loader, proved in Props/C13.lean)
    "TDV.Loader.resume_exact",
    "TDV.Loader.resume_exact_obs",
    "TDV.Loader.resume_exact_end",
]
LEAN_MODULES = ["TorchDataVerif.Props.C02", "TorchDataVerif.Props.C13"]
RULE = ("pipelines as in C04 (leaf under 0..4 operators, lengths 0..7, None/0/empty-list items). K-D cases: random op lists "
        "with state_dict / reset(state) / fresh-object ops, errors included. K-O cases: pipelines that never raise; every epoch "
        "e in {0,1} and every k in 0..len(epoch)+1 (len+1 = after StopIteration was observed) is one case; chains add every "
        "(k, j). A case is non-trivial when the pipeline has at least one operator above the leaf and the epoch has at least "
        "two items; distinct by (pipeline description, e, k[, j]).")
EXPLANATION = ("Lean: every combinator preserves `Lawful` (NodeCore): state_dict is transparent and loading the state taken at any "
               "reachable point into any (also a freshly built) pipeline is bisimilar to continuing, hence the same items for the rest "
               "of the epoch, all later epochs and all later checkpoint/resume chains; for Unbatcher and Prefetcher/ParallelMapper this "
               "is proved for pipelines that never raise (the full statement is refuted in Lean on two concrete pipelines whose "
               "checkpoint is taken after an exception). Tie: differential run against the model driver. Oracle: every k on the real "
               "operators.")
ASSUMPTIONS = [
    "state dicts are deep-copied when taken (serialisation); aliasing of live objects is C08's subject",
    "checkpoints are taken from pipelines that have not raised (see unbatcher_not_lawful / buffered_not_lawful for what happens otherwise)",
    "Prefetcher / threaded ParallelMapper: real threads, OS schedule; compared with the sequential abstraction `buffered`",
]
KNOWN: Dict[str, Any] = {}

# pipelines on which a checkpoint taken AFTER an exception does not resume like the uninterrupted run
# (the Lean negation witnesses); replayable with kind "resume_after_error"
AFTER_ERROR_WITNESSES = [
    {"pipe": {"op": "unbatch", "src": {"op": "map", "f": "err_if_3", "src": {"op": "list", "items": [[1], 3, [2]]}}},
     "ops": ["reset_none", "next", "next", "get", "next", "fresh", ["reset_tok", 0], "next"]},
    {"pipe": {"op": "buffered", "sf": 1, "pf": 2, "src": {"op": "map", "f": "err_if_3", "src": {"op": "list", "items": [1, 3, 5]}}},
     "ops": ["reset_none", "next", "next", "get", "next", "fresh", ["reset_tok", 0], "next", "next"]},
]


def _has_item(obs) -> bool:
    return any(isinstance(o, dict) and "i" in o for o in obs)


def kd_batch(ctx: Ctx, leg: str, n: int, threads: bool):
    reqs, reals, metas = [], [], []
    extra = list(AFTER_ERROR_WITNESSES) if not threads else [AFTER_ERROR_WITNESSES[1]]
    for i in range(n + len(extra)):
        if i < len(extra):
            d, ops = extra[i]["pipe"], extra[i]["ops"]
        else:
            d = nc.gen_pipe(ctx.rng, 4, allow_err=(not threads) or ctx.rng.random() < 0.3, allow_threads=threads)
            inf = nc.info(d)
            if threads and not inf["threaded"]:
                d = {"op": "buffered", "sf": ctx.rng.choice([0, 1, 2, 3]), "pf": ctx.rng.choice([1, 2, 4]), "src": d}
                inf = nc.info(d)
            ops = nc.gen_ops(ctx.rng, ctx.rng.randrange(5, 14 if threads else 30), True, strict_epochs=inf["threaded"])
        inp = {"pipe": d, "ops": ops}
        try:
            real = nc.run_ops_real(d, ops)
        except Exception as e:  # noqa: BLE001
            ctx.fail("pipeline_ops", inp, f"real pipeline raised outside next/reset: {type(e).__name__}: {e}")
            continue
        reqs.append({"m": "nodes", "pipe": d, "ops": ops})
        reals.append(real)
        metas.append(inp)
        ctx.count("kd_root:" + d["op"])
        if i == len(extra):
            ctx.sample({"leg": leg, **inp})
    answers = Driver().run(reqs)
    for inp, real, ans in zip(metas, reals, answers):
        ctx.model_lines += 1
        if "error" in ans:
            ctx.diverge(leg, inp, "model driver error: " + str(ans["error"]))
            continue
        model = nc.truncate_at_raise(ans["obs"])
        uses_tok = any(isinstance(o, list) for o in inp["ops"])
        ctx.case(leg, inp, nc.info(inp["pipe"])["size"] > 1 and _has_item(real) and uses_tok)
        if model != real:
            k = next((j for j, (a, b) in enumerate(zip(model, real)) if a != b), min(len(model), len(real)))
            ctx.diverge(leg, inp, f"first difference at op {k} ({inp['ops'][k] if k < len(inp['ops']) else '?'}): impl={real[k:k+3]} model={model[k:k+3]}")


# --------------------------------------------------------------------------------------------------
# oracle


def drain(node, limit=10000) -> List[Any]:
    out = []
    for _ in range(limit):
        try:
            out.append(nc.canon_item(next(node)))
        except StopIteration:
            return out
    out.append("<no stop>")
    return out


def uninterrupted(d, nep: int) -> List[List[Any]]:
    node = nc.build_real(d)
    try:
        eps = []
        for _ in range(nep):
            node.reset()
            eps.append(drain(node))
        return eps
    finally:
        nc.shutdown(node)


def states_of_epoch(d, e: int, eps: List[List[Any]]) -> Tuple[Optional[str], List[Any]]:
    """Runs e full epochs, then epoch e item by item taking state_dict() before item 0, after every item and
    after the stop.  Returns (problem, [sd_0 .. sd_len, sd_after_stop])."""
    node = nc.build_real(d)
    try:
        for j in range(e):
            node.reset()
            got = drain(node)
            if got != eps[j]:
                return f"saving run: epoch {j} yields {got}, uninterrupted run {eps[j]}", []
        node.reset()
        sds = [copy.deepcopy(node.state_dict())]
        for k, want in enumerate(eps[e]):
            try:
                got = nc.canon_item(next(node))
            except StopIteration:
                return f"saving run with state_dict() after every item stops after {k} items of epoch {e}; uninterrupted run yields {eps[e]}", []
            if got != want:
                return f"saving run with state_dict() after every item yields {got!r} as item {k} of epoch {e}; uninterrupted run yields {want!r}", []
            sds.append(copy.deepcopy(node.state_dict()))
        try:
            x = next(node)
            return f"saving run yields an extra item {x!r} after epoch {e}", []
        except StopIteration:
            pass
        sds.append(copy.deepcopy(node.state_dict()))
        return None, sds
    finally:
        nc.shutdown(node)


def resume_check(d, sd, want_rest, want_next, j: Optional[int] = None, want_rest2=None) -> Tuple[bool, str, Any]:
    """fresh pipeline <- sd; rest of the epoch and next epoch.  With j: take j items, checkpoint, return the new sd."""
    node = nc.build_real(d)
    try:
        node.reset(copy.deepcopy(sd))
        if j is not None:
            got = []
            for _ in range(j):
                got.append(nc.canon_item(next(node)))
            if got != want_rest[:j]:
                return False, f"after resume the next {j} items are {got}, expected {want_rest[:j]}", None
            return True, "ok", copy.deepcopy(node.state_dict())
        rest = drain(node)
        if rest != want_rest:
            return False, f"resumed pipeline yields {rest} for the rest of the epoch, uninterrupted run yields {want_rest}", None
        node.reset()
        nxt = drain(node)
        if nxt != want_next:
            return False, f"epoch after the resumed one yields {nxt}, uninterrupted run yields {want_next}", None
        return True, "ok", None
    except Exception as e:  # noqa: BLE001
        return False, f"resumed pipeline raised {type(e).__name__}: {e}", None
    finally:
        nc.shutdown(node)


def check_point(d, e: int, k: int, j: Optional[int] = None) -> Tuple[bool, str]:
    """One oracle case, self-contained (used by replay)."""
    eps = uninterrupted(d, e + 2)
    prob, sds = states_of_epoch(d, e, eps)
    if prob:
        return False, prob
    k = min(k, len(sds) - 1)
    rest = eps[e][min(k, len(eps[e])):]
    if j is None:
        ok, msg, _ = resume_check(d, sds[k], rest, eps[e + 1])
        return ok, msg
    j = min(j, len(rest))
    ok, msg, sd2 = resume_check(d, sds[k], rest, eps[e + 1], j=j)
    if not ok:
        return ok, msg
    ok, msg, _ = resume_check(d, sd2, rest[j:], eps[e + 1])
    return ok, ("second resume: " + msg) if not ok else msg


def ko_pipeline(ctx: Ctx, leg: str, d, chains: bool, max_k: Optional[int] = None):
    nep = 3
    try:
        eps = uninterrupted(d, nep)
    except Exception as ex:  # noqa: BLE001
        ctx.fail("resume_point", {"pipe": d, "e": 0, "k": 0}, f"uninterrupted run raised {type(ex).__name__}: {ex}")
        return
    size = nc.info(d)["size"]
    for e in (0, 1):
        prob, sds = states_of_epoch(d, e, eps)
        if prob:
            ctx.fail("resume_point", {"pipe": d, "e": e, "k": 0}, prob)
            return
        ks = list(range(len(sds)))
        if max_k is not None and len(ks) > max_k:
            ks = sorted(ctx.rng.sample(ks, max_k))
        for k in ks:
            rest = eps[e][min(k, len(eps[e])):]
            inp = {"pipe": d, "e": e, "k": k}
            ok, msg, _ = resume_check(d, sds[k], rest, eps[e + 1])
            ctx.case(leg, inp, size > 1 and len(eps[e]) >= 2)
            ctx.count(f"{leg}:k_rel:" + ("0" if k == 0 else "end" if k == len(eps[e]) else "after_stop" if k > len(eps[e]) else "mid"))
            if not ok:
                ctx.fail("resume_point", inp, f"epoch {e}, checkpoint after {k} items: {msg}")
                return
            if chains and rest:
                j = ctx.rng.randrange(0, len(rest) + 1)
                inp2 = {"pipe": d, "e": e, "k": k, "j": j}
                ok, msg, sd2 = resume_check(d, sds[k], rest, eps[e + 1], j=j)
                if ok:
                    ok, msg, _ = resume_check(d, sd2, rest[j:], eps[e + 1])
                    msg = "second resume: " + msg
                ctx.case("ko_chain", inp2, size > 1 and len(eps[e]) >= 2)
                if not ok:
                    ctx.fail("resume_point", inp2, f"epoch {e}, checkpoint after {k} items, {j} more, checkpoint: {msg}")
                    return


def run(ctx: Ctx):
    kd_batch(ctx, "kd_seq", ctx.n(1500, 30000), False)
    kd_batch(ctx, "kd_thr", ctx.n(70, 600), True)
    for i in range(ctx.n(700, 12000)):
        d = nc.gen_pipe(ctx.rng, 4, allow_err=False, allow_threads=False)
        ctx.count("ko_sig:" + nc.pipe_sig(d).split("(")[0])
        if i < 1:
            ctx.sample({"leg": "ko_resume", "pipe": d})
        ko_pipeline(ctx, "ko_resume", d, chains=True)
    for i in range(ctx.n(25, 250)):
        d = nc.gen_pipe(ctx.rng, 3, allow_err=False, allow_threads=True)
        if not nc.info(d)["threaded"]:
            d = {"op": "buffered", "sf": ctx.rng.choice([0, 1, 2, 3]), "pf": ctx.rng.choice([1, 3]), "src": d}
        ko_pipeline(ctx, "ko_thr", d, chains=False, max_k=4)


def escalate(ctx: Ctx):
    run(ctx)


def replay(ctx: Ctx, payload) -> Tuple[bool, str]:
    kind, inp = payload["kind"], payload["input"]
    if kind == "loader_history":
        from . import c13
        return c13.replay(ctx, payload)
    if kind == "resume_point":
        return check_point(inp["pipe"], inp["e"], inp["k"], inp.get("j"))
    if kind == "pipeline_ops":
        try:
            nc.run_ops_real(inp["pipe"], inp["ops"])
        except Exception as e:  # noqa: BLE001
            return False, f"{type(e).__name__}: {e}"
        return True, "ok"
    if kind == "resume_after_error":
        # ops = prefix up to "get", one more next on the uninterrupted object, then fresh + reset_tok + next(s)
        obs = nc.run_ops_real(inp["pipe"], inp["ops"])
        i_get = inp["ops"].index("get")
        cont = obs[i_get + 1]
        i_res = inp["ops"].index("fresh") + 1
        resumed = obs[i_res:i_res + 2]
        if resumed[0] == "raise" or (len(resumed) > 1 and resumed[1] != cont):
            return False, f"uninterrupted pipeline continues with {cont}, pipeline resumed from the state taken after the exception: {resumed}"
        return True, "resumed like the uninterrupted run"
    if kind in ("loader_history", "api_history"):
        # Loader-level witnesses of C02 live in the Loader check (M4, harness/props/c13.py)
        from . import c13
        return c13.replay(ctx, payload)
    return True, "unknown kind"
