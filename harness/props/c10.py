"""C10 - oracle: harness/props/sdl_ko.py (check_c10) on the real StatefulDataLoader under the virtual scheduler;
theorems and correspondence legs come from the SP / MP model parts."""
from __future__ import annotations

from . import _compose, sdl_ko

RULE = 'map-style and iterator-style datasets with 1-3 failing items / failing collate / failing worker_init_fn, any num_workers, batch size, prefetch factor, schedule policy; consumer catches and continues over 2 epochs; expected observation sequence derived from the documentation. Non-trivial: at least one error with num_workers>0; distinct by (configuration, failing set, policy).'
EXPLANATION = 'Lean: TDV.SP.error_position_* and TDV.MP.error_position (full strength after the repair of the map-style snapshot trigger). Tie: SP K-D / MP K-T with failing tasks. Oracle: catch-and-continue consumer on the real loader.'
ASSUMPTIONS = ["worker processes are virtual processes under harness/vsched.py (real _worker_loop, deep-copied arguments, pickled queue payloads)"]

PARTS = [_compose.ko_part("ko", sdl_ko.gen_c10, sdl_ko.check_c10, 200, 4000, known=None)]
PARTS.append(_compose.ko_part("ko_epoch_start", sdl_ko.gen_c10_epoch_start, sdl_ko.check_c10_epoch_start, 40, 600, known=None))
from . import sp_kd
PARTS.append(_compose.Part("sp_kd", lambda ctx: sp_kd.run_kd(ctx, 500, 5000), sp_kd.replay_kd, theorems=sp_kd.THEOREMS_C10, modules=sp_kd.LEAN_MODULES))
try:
    from . import mp_parts
    PARTS += mp_parts.parts("C10")
except ImportError:
    pass
try:
    from . import mprerr_parts
    PARTS += mprerr_parts.parts()
except ImportError:
    pass
try:
    from . import mph_parts
    PARTS += mph_parts.parts()
except ImportError:
    pass
_compose.assemble(globals(), PARTS, RULE, EXPLANATION, ASSUMPTIONS)
