"""Theorems contributed by lean Props/C01MPFF.lean (namespace TDV.MPRFF; helper lemmas in Proofs/MPRFF*.lean): the
FAST-FORWARD restore branch of `_StatefulMultiProcessingDataLoaderIter.__init__` — iterable datasets without any
state_dict (property C01: "iterable-style datasets with or without their own state_dict/load_state_dict").

Model: `Proofs/MPRFFModel.lean` (`ffStart`: the constructor up to its priming loop; `Replay`: `for _ in range(n): next(self)`
as ordinary protocol actions under any schedule; `ffCheck`: the last_yielded_worker_id check; `RestoreFF`: the whole branch).

`run_ff` below is the correspondence leg for that model: the closed-form content of the theorems (what the constructor
leaves in `_num_yielded`, `snapshot_step`, `steps_since_snapshot`, `last_yielded_worker_id`, the `fetcher_ended` flags; the
resumed stream; every later state_dict = the one of the uninterrupted run; ValueError iff the owner of the
`snapshot_step`-th batch changed) evaluated on the real StatefulDataLoader over `IterPlain` (no state_dict anywhere) under
virtual schedules, for every k of the first epoch.
"""
from __future__ import annotations

import pickle
from typing import Any, Dict, List, Optional, Tuple

from .. import sdl, vsched
from ..core import Ctx
from . import mpr_kd

LEAN_MODULES = ["TorchDataVerif.Props.C01MPFF"]
T = "TDV.MPRFF."
THEOREMS = [T + n for n in (
    "ff_check",              # after the replay of snapshot_step batches: _num_yielded = snapshot_step (counted once), _last_yielded_worker_id = owner of that batch; check passes iff it is the saved one
    "ff_check_passes",       # with the checkpoint of a saving run of the same dataset the check passes, every schedule
    "resume_exact_ff",       # constructor replays exactly the k saved batches, bookkeeping = the saving run's (not doubled), consumer gets exactly drop k stream
    "chain_ff",              # state_dict j batches later = the uninterrupted one after k + j (up to the sampler counter): chains
    "ff_mismatch_detected",  # changed dataset whose snapshot_step-th batch has another owner: ValueError, every schedule
    "exFF_hyps",             # non-vacuity instance: shards 3/1/4, interval 3, k = 4
    "exFF_restoreFF",        # ... for which RestoreFF holds under concrete schedules
)]
THEOREMS_BY_PROP = {"C01": list(THEOREMS)}

LEG = "kd_mprff"
RULE = ("K-D MPRFF: IterPlain (no state_dict anywhere) configurations from harness.sdl.gen_cfg, W 1-3, uneven / empty shards, "
        "every k of the first epoch, other virtual schedule for the resumed loader. A (configuration, k) case is non-trivial "
        "when snapshot_step > 0 (batches are really replayed and the check compares a worker that yielded) or "
        "steps_since_snapshot > 0; distinct by (configuration, k). Mismatch cases: one shard size changed; non-trivial when "
        "the owner of the snapshot_step-th batch differs.")


def gen(rng) -> Dict[str, Any]:
    cfg = sdl.gen_cfg(rng, kinds=["iter_plain"], max_w=3, allow_shuffle=False)
    cfg["W"] = max(1, cfg["W"])
    cfg.setdefault("pf", rng.choice([1, 2, 2, 3]))
    cfg["persistent"] = False
    sizes = list(cfg["sizes"])
    while len(sizes) < cfg["W"]:
        sizes.append(rng.choice([0, 1, 2, 3, 5]))
    cfg["sizes"] = sizes[:cfg["W"]]
    cfg.pop("fail", None)
    return cfg


def owners(cfg) -> List[int]:
    """Owner of every batch of Ref.interleave."""
    nb = [mpr_kd.nbatches(sz, cfg["bs"], cfg.get("drop_last", False)) for sz in cfg["sizes"]]
    out, r = [], 0
    while any(r < n for n in nb):
        out += [w for w, n in enumerate(nb) if r < n]
        r += 1
    return out


def step_of(cfg, n: int) -> int:
    i = cfg.get("interval") or 0
    return 0 if i == 0 else i * (n // i)


def _book_sd(sd) -> Tuple[int, int, int, Tuple[bool, ...]]:
    sn = sd["_snapshot"]
    ws = sn["_worker_snapshots"]
    ended = tuple(bool(ws[k]["fetcher_state"]["fetcher_ended"]) for k in sorted(ws, key=lambda x: int(x.split("_")[1])))
    return (sn["_snapshot_step"], sd["_steps_since_snapshot"], sn["_last_yielded_worker_id"], ended)


def real_ff(cfg, sd_bytes, seed, limit) -> Tuple[List[Any], List[Any]]:
    """Resume; (observations, [(_num_yielded, snapshot_step, steps_since, last worker, ended flags) after the constructor
    and after every batch])."""
    import torch
    out: List[Any] = []
    books: List[Any] = []
    with vsched.Session(seed) as s:
        torch.manual_seed(2)
        loader = sdl.build(cfg)
        loader.load_state_dict(pickle.loads(sd_bytes))
        try:
            it = iter(loader)
            books.append((it._num_yielded,) + _book_sd(it.state_dict()))
            while len(out) < limit:
                o = sdl.take(it, s)
                out.append(o)
                if o[0] != "item":
                    break
                books.append((it._num_yielded,) + _book_sd(it.state_dict()))
            del it
        except vsched.VHang as e:
            out.append(("hang", str(e)))
        except Exception as e:  # the constructor raised
            out.append(("error", type(e).__name__ + ": " + str(e)[:60]))
        del loader
    return out, books


def check_cfg(cfg, seed, only_k: Optional[int] = None, mism: Optional[Dict[str, Any]] = None):
    """Yields (k, kind, nontrivial, problem or None); kind in {'same', 'changed'}."""
    stream, sds = mpr_kd.real_run(cfg, seed)
    if not stream or stream[-1][0] != "stop":
        yield (-1, "same", False, f"uninterrupted run does not complete: {stream[-1:]}")
        return
    nb = len(stream) - 1
    own = owners(cfg)
    if nb != len(own):
        yield (-1, "same", False, f"epoch has {nb} batches, Ref.interleave {len(own)}")
        return
    saved = {k: _book_sd(pickle.loads(sds[k])) for k in sds}
    for k in range(nb + 1):
        if only_k is not None and k != only_k:
            continue
        m = step_of(cfg, k)
        if saved[k][0] != m or saved[k][1] != k - m or saved[k][2] != (own[m - 1] if m else cfg["W"] - 1):
            yield (k, "same", False, f"saving run: checkpoint {saved[k]} but snapshot_fields predicts step {m}, since {k - m}")
            continue
        out, books = real_ff(cfg, sds[k], seed + 101 + k, nb + 2)
        problem = None
        if out != stream[k:]:
            problem = f"resume_exact_ff: resumed loader gives {out[:6]}, expected {stream[k:][:6]}"
        else:
            for j, b in enumerate(books):
                want = (k + j,) + saved[k + j]
                if b != want:
                    problem = f"chain_ff: after the constructor + {j} batches (_num_yielded, step, since, last, ended) = {b}, uninterrupted run: {want}"
                    break
        yield (k, "same", m > 0 or k > m, problem)
        if mism is not None:
            cfg2 = dict(cfg, sizes=mism["sizes"])
            own2 = owners(cfg2)
            if len(own2) < k:
                continue  # a replay loop runs into StopIteration inside the constructor: outside `Replay`
            differs = m > 0 and own2[m - 1] != own[m - 1]
            out2, _ = real_ff(cfg2, sds[k], seed + 301 + k, len(own2) + 2)
            raised = bool(out2) and out2[0][0] == "error" and out2[0][1].startswith("ValueError")
            p2 = None
            if raised != differs:
                p2 = f"ff_mismatch_detected: sizes {cfg['sizes']} -> {cfg2['sizes']}, step {m}: owner differs = {differs}, ValueError raised = {raised} ({out2[:2]})"
            yield (k, "changed", differs, p2)


def run_ff(ctx: Ctx, nq: int = 4, nt: int = 80):
    import torch
    torch.set_num_threads(1)
    rng = ctx.sub_rng(LEG)
    for _ in range(ctx.n(nq, nt)):
        cfg = gen(rng)
        seed = rng.randrange(1 << 30)
        sizes2 = list(cfg["sizes"])
        w = rng.randrange(len(sizes2))
        sizes2[w] = rng.choice([x for x in (0, 0, 0, 1, 1, 2, 3, 5, 8) if x != sizes2[w]])
        mism = {"sizes": sizes2}
        ctx.count(f"{LEG}:interval:{cfg.get('interval')}")
        for k, kind, nontrivial, problem in check_cfg(cfg, seed, mism=mism):
            ctx.case(LEG, [cfg, kind, k, sizes2 if kind == "changed" else None], nontrivial)
            if nontrivial:
                ctx.count(f"{LEG}:{kind}:nontrivial")
            if problem is not None:
                ctx.diverge(LEG, {"cfg": cfg, "seed": seed, "k": k, "mism": mism}, problem)
    ctx.sample({"leg": LEG, "cfg": cfg, "mismatch_sizes": sizes2})


def replay_ff(ctx: Ctx, payload) -> Tuple[bool, str]:
    inp = payload.get("input", payload)
    k = inp.get("k")
    for kk, kind, _, problem in check_cfg(inp["cfg"], inp["seed"], only_k=k if k is not None and k >= 0 else None, mism=inp.get("mism")):
        if problem is not None:
            return False, f"k={kk} ({kind}): {problem}"
    return True, "the real fast-forward restore agrees with the theorems"


def parts():
    from . import _compose
    return [_compose.theorem_part("mprff", THEOREMS, LEAN_MODULES),
            _compose.Part("mprff_kd", run_ff, replay_ff, theorems=[], modules=[])]
