"""C14 — MultiNodeWeightedSampler honours its stop criterion, source order and seeding.

Legs
  kd_node      K-D: scripts of node operations (next / reset / state_dict / fresh node + reset(state)) on the real
               `MultiNodeWeightedSampler` over `IterableWrapper(list)` sources vs the Lean machine `TDV.Weighted.Node`.
               The model is fed the choice batches reproduced HERE from the documented seeding recipe, so a change in
               how (seed, rank, world_size, epoch, weights) enter the stream is a divergence.
  ko_run       K-O: per-source order, exactly-once (ALL), exact stop (FIRST, CYCLE_UNTIL), never stops (CYCLE_FOREVER),
               outputs follow the reference stream, determinism, every epoch of the run.
  ko_resume    K-O: interruption at EVERY k: state_dict -> fresh identical node -> reset(state) -> same remainder;
               the same dict object loaded twice gives the same continuation and is not modified (pickle bytes).
  ko_sampler   K-O on `_WeightedSampler` alone: draws equal the reference stream; (g_state, offset) taken after m draws
               (m around multiples of the batch length included) regenerates the remaining stream.
"""
from __future__ import annotations

import pickle
from typing import Any, Dict, List, Optional, Tuple

from ..core import Ctx, Failure
from ..leanbridge import Driver

THEOREMS = [
    "TDV.Weighted.per_source_order",
    "TDV.Weighted.all_exhausted_exact",
    "TDV.Weighted.first_exhausted_exact",
    "TDV.Weighted.cycle_until_partial",
    "TDV.Weighted.cycle_forever_partial",
    "TDV.Weighted.cycle_until_statement_false",
    "TDV.Weighted.cycle_forever_statement_false",
    "TDV.Weighted.fair_terminates",
    "TDV.Weighted.next_eq_run",
    "TDV.Weighted.ws_draws",
    "TDV.Weighted.resume_choices",
    "TDV.Weighted.node_resume_exact",
    "TDV.Weighted.node_refines_stream",
    "TDV.Weighted.reset_none_epoch",
]
LEAN_MODULES = ["TorchDataVerif.Props.C14"]
RULE = ("cases are (criterion, 1-4 source lengths 0-7, positive float weights, weights-dict order, seed, rank<world_size, "
        "epochs, op script) from one PRNG. A case is non-trivial when it has at least two sources of different lengths or an "
        "empty source, and the run yields at least one item or stops; distinct by (criterion, lengths, weight order, first 60 "
        "output tags of every epoch, script shape).")
EXPLANATION = ("Lean: per-criterion exactness theorems for every choice stream and every source lengths (TDV.Weighted.*), "
               "termination under fairness, (g_snapshot, offset) resume of the sampler and of the node. "
               "CYCLE_UNTIL/CYCLE_FOREVER are PARTIAL: proved for non-empty sources only; with an empty source the full "
               "statement is refuted on a witness (cycle_*_statement_false) which this check replays on the real code. "
               "Tie: differential op scripts real node vs model with the reference multinomial batches; oracle on real runs.")
ASSUMPTIONS = [
    "torch.multinomial with a generator is a deterministic function of the generator state; get_state/set_state are exact (the batch oracle B of the model)",
    "sources are deterministic finite lists restarting on reset(); their own state_dict/reset is exact (IterableWrapper over a list)",
    "the choice stream itself (the multinomial draws) is a parameter of the theorems; its dependence on (seed, rank, world_size, epoch, weights) is checked against a re-implementation of the documented recipe, not proved",
]

CRITS = ["CYCLE_UNTIL_ALL_DATASETS_EXHAUSTED", "ALL_DATASETS_EXHAUSTED", "FIRST_DATASET_EXHAUSTED", "CYCLE_FOREVER"]
CYCLE = ("CYCLE_UNTIL_ALL_DATASETS_EXHAUSTED", "CYCLE_FOREVER")
BATCH = 1000
MAX_BATCHES = 60   # per epoch; the driver numbers generator states 64 * epoch + batch

REAL_LIMIT_S = 10.0   # guard only: a real call sequence that takes this long is reported as a hang, never awaited


class RealHang(BaseException):
    pass


class time_limit:
    """Wall-clock guard around in-process calls of the real code (main thread, SIGALRM)."""

    def __init__(self, seconds: float = REAL_LIMIT_S):
        self.seconds = seconds
        self.armed = False

    def _fire(self, signum, frame):
        raise RealHang()

    def __enter__(self):
        import signal
        import threading
        if hasattr(signal, "setitimer") and threading.current_thread() is threading.main_thread():
            self.old = signal.signal(signal.SIGALRM, self._fire)
            signal.setitimer(signal.ITIMER_REAL, self.seconds)
            self.armed = True
        return self

    def __exit__(self, *exc):
        import signal
        if self.armed:
            signal.setitimer(signal.ITIMER_REAL, 0)
            signal.signal(signal.SIGALRM, self.old)
        return False


def guarded(ctx: Ctx, inp, fn, *args):
    """fn(*args) under the guard; a hang is a failure of the real code on `inp`."""
    hangs = sum(1 for f in ctx.failures if f.kind == "hang")
    try:
        with time_limit(REAL_LIMIT_S if hangs < 3 else 1.0):   # after three reported hangs the search only skims
            return fn(*args)
    except RealHang:
        if hangs < 3:
            ctx.fail("hang", inp, f"the real code did not finish within {REAL_LIMIT_S:.0f} s (a normal case takes milliseconds)")
        ctx.count("real_hang")
        return None


# ------------------------------------------------------------------------------------------------
# independent re-implementation of the documented seeding recipe


class Ref:
    """Reference choice stream for (weights in dict order, seed, rank, world_size): per epoch, batches of 1000
    multinomial draws and the generator state before each batch."""

    def __init__(self, weights: List[float], seed: int, rank: int, world_size: int):
        self.w, self.seed, self.rank, self.ws = list(weights), seed, rank, world_size
        self.ep: Dict[int, Any] = {}

    def _epoch(self, e: int):
        import torch
        if e not in self.ep:
            g_rank = torch.Generator()
            g_rank.manual_seed(self.seed * self.ws + self.rank)
            s = int(torch.randint(0, 2 ** 32 - 1, size=(e + 1,), generator=g_rank)[-1].item())
            g = torch.Generator()
            g.manual_seed(s)
            self.ep[e] = {"g": g, "snaps": [], "batches": []}
        return self.ep[e]

    def batch(self, e: int, b: int) -> List[int]:
        import torch
        d = self._epoch(e)
        while len(d["batches"]) <= b:
            d["snaps"].append(d["g"].get_state().clone())
            d["batches"].append(torch.multinomial(torch.tensor(self.w, dtype=torch.float64), BATCH, replacement=True,
                                                  generator=d["g"]).tolist())
        return d["batches"][b]

    def choice(self, e: int, i: int) -> int:
        return self.batch(e, i // BATCH)[i % BATCH]

    def locate(self, g_state, max_epoch: int, max_batch: int = MAX_BATCHES) -> Optional[List[int]]:
        """[epoch, batch index] whose pre-batch generator state equals g_state."""
        import torch
        for b in range(max_batch):
            for e in range(max_epoch + 1):
                self.batch(e, b)
                if torch.equal(self.ep[e]["snaps"][b], g_state):
                    return [e, b]
        return None


# ------------------------------------------------------------------------------------------------
# the real node


def names_of(desc) -> List[str]:
    return ["d%d" % i for i in range(len(desc["lens"]))]


def build(desc):
    """Fresh node object.  Sources are created in index order; the weights dict is created in `worder` order
    (the sampler's key index = position in the weights dict)."""
    from torchdata.nodes import IterableWrapper
    from torchdata.nodes.samplers.multi_node_weighted_sampler import MultiNodeWeightedSampler

    nm = names_of(desc)
    srcs = {nm[i]: IterableWrapper([(nm[i], j) for j in range(desc["lens"][i])]) for i in range(len(nm))}
    weights = {nm[i]: desc["weights"][i] for i in desc["worder"]}
    return MultiNodeWeightedSampler(srcs, weights, desc["crit"], rank=desc["rank"], world_size=desc["world_size"],
                                    seed=desc["seed"])


def key_index(desc) -> Dict[str, int]:
    """source name -> key index used by the sampler (position in weights order)."""
    nm = names_of(desc)
    return {nm[i]: p for p, i in enumerate(desc["worder"])}


def ref_of(desc) -> Ref:
    return Ref([desc["weights"][i] for i in desc["worder"]], desc["seed"], desc["rank"], desc["world_size"])


def lens_by_key(desc) -> List[int]:
    return [desc["lens"][i] for i in desc["worder"]]


def canon_item(desc, kidx, it):
    if isinstance(it, tuple) and len(it) == 2 and it[0] in kidx:
        return [kidx[it[0]], it[1]]
    return ["?", repr(it)]


def drain(node, kidx, desc, cnt: int, past: bool = False) -> List[Any]:
    out: List[Any] = []
    for _ in range(cnt):
        try:
            out.append(canon_item(desc, kidx, next(node)))
        except StopIteration:
            out.append("stop")
            if not past:
                break
    return out


def obs_state(sd, desc, ref: Ref, max_epoch: int):
    nm = names_of(desc)
    order = [nm[i] for i in desc["worder"]]
    ws = sd["weighted_sampler_state"]
    return {"exh": [1 if sd["datasets_exhausted"][k] else 0 for k in order], "epoch": sd["epoch"],
            "yielded": sd["num_yielded"], "snap": ref.locate(ws["g_state"], max_epoch), "off": ws["offset"]}


def run_script_real(desc, ref: Ref):
    """Executes desc["ops"] on the real classes; returns (answers shaped like the driver's, batches needed)."""
    kidx = key_index(desc)
    node = build(desc)
    saved: List[Any] = []
    answers: List[Any] = []
    max_epoch = sum(1 for op in desc["ops"] if op[0] == "reset") + 1
    need: Dict[int, int] = {0: 0}

    def touch():
        sd = node.state_dict()
        loc = ref.locate(sd["weighted_sampler_state"]["g_state"], max_epoch)
        if loc is not None:
            need[loc[0]] = max(need.get(loc[0], 0), loc[1])

    for op in desc["ops"]:
        if op[0] == "next":
            answers.append({"r": drain(node, kidx, desc, op[1], past=(len(op) > 2 and op[2] == 1))})
            touch()
        elif op[0] == "reset":
            node.reset()
            answers.append({"epoch": node.state_dict()["epoch"]})
            touch()
        elif op[0] == "state":
            sd = node.state_dict()
            saved.append(sd)
            answers.append(obs_state(sd, desc, ref, max_epoch))
        elif op[0] == "load":
            node.reset(saved[op[1]])
            answers.append({})
            touch()
        elif op[0] == "new":
            node = build(desc)
            answers.append({})
    return answers, need


def model_request(desc, ref: Ref, need: Dict[int, int]):
    lens = lens_by_key(desc)
    emax = max(need) if need else 0
    batches = []
    for e in range(emax + 1):
        nb = need.get(e, 0) + 2
        batches.append(["".join(str(k) for k in ref.batch(e, b)) for b in range(nb)])
    return {"m": "weighted", "crit": desc["crit"], "srcs": [list(range(l)) for l in lens], "batches": batches,
            "ops": desc["ops"]}


def norm_model_answer(a):
    if "exh" in a:
        return {k: a[k] for k in ("exh", "epoch", "yielded", "snap", "off")}
    return a


# ------------------------------------------------------------------------------------------------
# independent specification of one epoch (what the property says), used by the oracle


def spec_epoch(crit: str, lens: List[int], choice, cap: int, max_draws: int = 400000):
    """Expected outputs [[k, i], ...] and whether the epoch stops, for the stream `choice(i)`.
    Only called for inputs on which the property fixes the outcome (CYCLE_*: non-empty sources)."""
    n = len(lens)
    cnt = [0] * n          # draws of k that found an item or found it exhausted
    found = [False] * n
    out: List[List[int]] = []
    i = 0
    if n == 0:
        return out, crit != "CYCLE_FOREVER"
    while len(out) < cap and i < max_draws:
        k = choice(i)
        i += 1
        if crit == "ALL_DATASETS_EXHAUSTED":
            if cnt[k] < lens[k]:
                out.append([k, cnt[k]])
                cnt[k] += 1
            else:
                found[k] = True
                if all(found):
                    return out, True
        elif crit == "FIRST_DATASET_EXHAUSTED":
            if cnt[k] < lens[k]:
                out.append([k, cnt[k]])
                cnt[k] += 1
            else:
                return out, True
        else:
            if cnt[k] > 0 and cnt[k] % lens[k] == 0:
                found[k] = True
                if crit == "CYCLE_UNTIL_ALL_DATASETS_EXHAUSTED" and all(found):
                    return out, True
            out.append([k, cnt[k] % lens[k]])
            cnt[k] += 1
    return out, False


def run_epochs_real(desc):
    """Runs desc["epochs"] epochs (reset between them), each until stop or desc["cap"] items."""
    kidx = key_index(desc)
    node = build(desc)
    res = []
    for e in range(desc["epochs"]):
        if e > 0:
            node.reset()
        r = drain(node, kidx, desc, desc["cap"])
        stopped = bool(r) and r[-1] == "stop"
        res.append((r[:-1] if stopped else r, stopped))
    return res


def in_defect_region(desc) -> bool:
    return desc["crit"] in CYCLE and any(l == 0 for l in desc["lens"])


def oracle_case(desc) -> List[Tuple[str, str]]:
    """Property oracle on the real code.  Returns [(kind, what)]."""
    bad: List[Tuple[str, str]] = []
    crit, lens = desc["crit"], lens_by_key(desc)
    ref = ref_of(desc)
    try:
        res = run_epochs_real(desc)
        res2 = run_epochs_real(desc)
    except Exception as e:
        return [("ko_run", f"real node raised {type(e).__name__}: {e}")]
    if res != res2:
        bad.append(("ko_run", "two nodes built with the same arguments produced different streams"))
    for e, (out, stopped) in enumerate(res):
        capped = (not stopped) and len(out) >= desc["cap"]
        if not stopped and not capped:
            bad.append(("ko_run", f"epoch {e}: drain ended without stop and below the cap"))
        if any(o[0] == "?" for o in out):
            bad.append(("ko_run", f"epoch {e}: foreign item {out[:5]}"))
            continue
        # per-source order
        for k, l in enumerate(lens):
            mine = [o[1] for o in out if o[0] == k]
            if crit in CYCLE:
                exp = [j % l for j in range(len(mine))] if l > 0 else []
            else:
                exp = list(range(len(mine)))
            if mine != exp or (crit not in CYCLE and len(mine) > l):
                bad.append(("ko_run", f"epoch {e}: items of source {k} (length {l}) come as {mine[:20]}, criterion {crit}"))
        if crit == "ALL_DATASETS_EXHAUSTED" and stopped:
            for k, l in enumerate(lens):
                mine = [o[1] for o in out if o[0] == k]
                if mine != list(range(l)):
                    bad.append(("ko_run", f"epoch {e}: ALL stopped but source {k} (length {l}) yielded {mine}"))
        if in_defect_region(desc):
            # the property does not fix where an empty source is "restarted"; what it does fix:
            if crit == "CYCLE_FOREVER" and stopped:
                bad.append(("empty_source_cycle", f"epoch {e}: CYCLE_FOREVER raised StopIteration after {len(out)} items (lengths {lens})"))
            if crit == "CYCLE_UNTIL_ALL_DATASETS_EXHAUSTED" and stopped:
                unseen = [k for k, l in enumerate(lens) if len([o for o in out if o[0] == k]) < l]
                if unseen:
                    bad.append(("empty_source_cycle", f"epoch {e}: CYCLE_UNTIL stopped after {len(out)} items, sources {unseen} not fully seen (lengths {lens})"))
            continue
        exp_out, exp_stop = spec_epoch(crit, lens, lambda i: ref.choice(e, i), desc["cap"])
        if crit == "CYCLE_FOREVER" and stopped:
            bad.append(("ko_run", f"epoch {e}: CYCLE_FOREVER raised StopIteration after {len(out)} items"))
        elif out != exp_out or stopped != exp_stop:
            d = next((i for i, (a, b) in enumerate(zip(out, exp_out)) if a != b), min(len(out), len(exp_out)))
            bad.append(("ko_run", f"epoch {e}: outputs/stop differ from the specification on the reference stream at item {d}: "
                                  f"real {out[d:d + 4]} stopped={stopped} len={len(out)}; expected {exp_out[d:d + 4]} stopped={exp_stop} len={len(exp_out)}"))
    return bad


def _pk(sd) -> bytes:
    return pickle.dumps(sd)


def resume_case(desc, ks: Optional[List[int]] = None) -> List[Tuple[str, str]]:
    """Interruption after k items of the LAST epoch of desc, for every k (or the given ks)."""
    bad: List[Tuple[str, str]] = []
    kidx = key_index(desc)
    cap = desc["cap"]
    try:
        node = build_at_epoch(desc)
        full = drain(build_at_epoch(desc), kidx, desc, cap)
        items = [o for o in full if o != "stop"]
        sds = []
        for k in range(len(items) + 1):
            if ks is None or k in ks:
                sd = node.state_dict()
                sds.append((k, sd, _pk(sd)))
            if k < len(items):
                got = drain(node, kidx, desc, 1)
                if got != [items[k]]:
                    return [("ko_resume", f"second uninterrupted run differs at item {k}: {got} vs {items[k]}")]
        for k, sd, before in sds:
            conts = []
            for _ in range(2):
                fresh = build(desc)
                fresh.reset(sd)
                conts.append(drain(fresh, kidx, desc, cap - k))
            if conts[0] != full[k:]:
                d = next((i for i, (a, b) in enumerate(zip(conts[0], full[k:])) if a != b), min(len(conts[0]), len(full) - k))
                bad.append(("ko_resume", f"k={k}: resumed stream differs at its item {d}: {conts[0][d:d + 4]} vs uninterrupted {full[k + d:k + d + 4]}"))
            elif conts[1] != conts[0]:
                bad.append(("ko_resume", f"k={k}: loading the same state dict a second time gives a different continuation"))
            elif _pk(sd) != before:
                bad.append(("ko_resume", f"k={k}: the state dict was modified by loading it / by the run continuing"))
            if not bad and k in (0, 1, len(items) // 2, len(items)):
                # seeding: a reset() WITHOUT state right after a load (no item requested in between) starts the loaded
                # epoch over - the epoch's own sequence from its first draw, not a continuation of the checkpoint
                fresh = build(desc)
                fresh.reset(sd)
                fresh.reset()
                again = drain(fresh, kidx, desc, cap)
                if again != full:
                    d = next((i for i, (a, b) in enumerate(zip(again, full)) if a != b), min(len(again), len(full)))
                    bad.append(("ko_reset_after_load", f"k={k}: reset(state); reset(): the restarted epoch differs from the epoch's own sequence at item {d}: {again[d:d + 4]} vs {full[d:d + 4]}"))
            if bad:
                break
    except Exception as e:
        bad.append(("ko_resume", f"raised {type(e).__name__}: {e}"))
    return bad


def build_at_epoch(desc):
    kidx = key_index(desc)
    node = build(desc)
    for e in range(desc["epochs"] - 1):
        drain(node, kidx, desc, desc["cap"])
        node.reset()
    return node


def sampler_case(inp) -> List[Tuple[str, str]]:
    """`_WeightedSampler` alone against the reference stream, with one (g_state, offset) resume after m draws."""
    from torchdata.nodes.samplers.multi_node_weighted_sampler import _WeightedSampler

    w = {"d%d" % i: x for i, x in enumerate(inp["weights"])}
    names = list(w.keys())
    ref = Ref(inp["weights"], inp["seed"], inp["rank"], inp["world_size"])
    e, m, tail = inp["epoch"], inp["m"], inp["tail"]
    try:
        s = _WeightedSampler(w, inp["seed"], inp["rank"], inp["world_size"], e)
        got = [names.index(next(s)) for _ in range(m)]
        exp = [ref.choice(e, i) for i in range(m)]
        if got != exp:
            d = next(i for i, (a, b) in enumerate(zip(got, exp)) if a != b)
            return [("ko_sampler", f"draw {d} of epoch {e} is {got[d]}, the seeding recipe gives {exp[d]}")]
        sd = s.state_dict()
        s2 = _WeightedSampler(w, inp["seed"], inp["rank"], inp["world_size"], e, initial_state=sd)
        got2 = [names.index(next(s2)) for _ in range(tail)]
        got1 = [names.index(next(s)) for _ in range(tail)]
        exp2 = [ref.choice(e, m + i) for i in range(tail)]
        if got1 != exp2:
            return [("ko_sampler", f"draws after {m} differ from the recipe")]
        if got2 != exp2:
            d = next(i for i, (a, b) in enumerate(zip(got2, exp2)) if a != b)
            return [("ko_sampler", f"restored after {m} draws (offset {sd['offset']}): its draw {d} is {got2[d]}, uninterrupted {exp2[d]}")]
    except Exception as ex:
        return [("ko_sampler", f"raised {type(ex).__name__}: {ex}")]
    return []


# ------------------------------------------------------------------------------------------------
# generators


def gen_weights(rng, n) -> List[float]:
    mode = rng.random()
    if mode < 0.3:
        return [float(rng.randrange(1, 4)) for _ in range(n)]
    if mode < 0.8:
        return [round(rng.uniform(0.05, 1.0), 6) for _ in range(n)]
    return [round(10 ** rng.uniform(-1.7, 0.7), 6) for _ in range(n)]


def gen_case(rng, avoid_defect_region: bool) -> Dict[str, Any]:
    n = rng.choice([1, 2, 2, 3, 3, 4])
    crit = rng.choice(CRITS)
    lens = [rng.choice([0, 1, 1, 2, 3, 4, 5, 6, 7]) for _ in range(n)]
    if avoid_defect_region and crit in CYCLE:
        lens = [l if l > 0 else rng.randrange(1, 8) for l in lens]
    worder = list(range(n))
    if rng.random() < 0.4:
        rng.shuffle(worder)
    ws = rng.choice([1, 1, 2, 3, 8])
    return {"crit": crit, "lens": lens, "weights": gen_weights(rng, n), "worder": worder, "seed": rng.choice([0, 1, 2, 7, 12345, 2 ** 31 + 5]),
            "rank": rng.randrange(ws), "world_size": ws, "epochs": rng.choice([1, 1, 2, 3]),
            "cap": rng.choice([25, 40, 60]) if crit == "CYCLE_FOREVER" else 400}


def gen_script(rng, desc) -> List[List[Any]]:
    cap = desc["cap"]
    shape = rng.random()
    ops: List[List[Any]] = []
    if shape < 0.35:       # epochs
        for e in range(desc["epochs"]):
            if e:
                ops.append(["reset"])
            ops += [["next", cap], ["state"]]
        if rng.random() < 0.3:
            ops.append(["next", 3, 1])     # calls after a stop
    elif shape < 0.75:     # interrupt, resume into a fresh node
        for e in range(desc["epochs"] - 1):
            ops += [["next", cap], ["reset"]]
        k = rng.randrange(0, 12)
        ops += [["next", k], ["state"], ["next", cap], ["new"], ["load", 0], ["state"], ["next", cap]]
        if rng.random() < 0.3:
            ops += [["new"], ["load", 0], ["next", rng.randrange(0, 5)], ["state"], ["new"], ["load", 2], ["next", cap]]
    else:                   # bookkeeping of _started / _epoch
        for _ in range(rng.randrange(2, 7)):
            r = rng.random()
            if r < 0.4:
                ops.append(["reset"])
            elif r < 0.75:
                ops.append(["next", rng.randrange(0, 6)])
            elif r < 0.9 or not any(o[0] == "state" for o in ops):
                ops.append(["state"])
            else:
                ops.append(["load", rng.randrange(sum(1 for o in ops if o[0] == "state"))])
        ops += [["state"], ["next", cap]]
    return ops


def nontrivial(desc, outs_len: int) -> bool:
    return (len(set(desc["lens"])) > 1 or 0 in desc["lens"]) and outs_len > 0


# ------------------------------------------------------------------------------------------------

WITNESS = {"crit": "CYCLE_UNTIL_ALL_DATASETS_EXHAUSTED", "lens": [0, 5], "weights": [0.9, 0.1], "worder": [0, 1], "seed": 0,
           "rank": 0, "world_size": 1, "epochs": 1, "cap": 400}


def is_empty_source_cycle(f: Failure) -> bool:
    return (f.kind == "empty_source_cycle" and f.inp.get("crit") in CYCLE and any(l == 0 for l in f.inp.get("lens", [1])))


KNOWN = {
    "empty-source-cycle": is_empty_source_cycle,
}


def kd_leg(ctx: Ctx, descs: List[Dict[str, Any]]):
    reqs, metas = [], []
    for desc in descs:
        ref = ref_of(desc)
        try:
            got = guarded(ctx, desc, run_script_real, desc, ref)
        except Exception as e:
            ctx.fail("kd_script", desc, f"real node raised {type(e).__name__}: {e}")
            continue
        if got is None:
            continue
        ans, need = got
        reqs.append(model_request(desc, ref, need))
        metas.append((desc, ans))
    answers = Driver().run(reqs)
    for a, (desc, real) in zip(answers, metas):
        ctx.model_lines += 1
        if "error" in a:
            ctx.diverge("kd_node", desc, "model driver error: " + str(a["error"]))
            continue
        model = [norm_model_answer(x) for x in a["ops"]]
        nitems = sum(len([o for o in x.get("r", []) if o != "stop"]) for x in real if isinstance(x, dict))
        sig = [desc["crit"], desc["lens"], desc["worder"], [o[0] for o in desc["ops"]],
               [[o[0] for o in x["r"][:60] if o != "stop"] for x in real if "r" in x]]
        ctx.case("kd_node", sig, nontrivial(desc, nitems))
        ctx.count("kd_crit:" + desc["crit"])
        if any(x.get("off", 0) == BATCH for x in real if isinstance(x, dict)):
            ctx.count("kd_state_at_offset_eq_batch")
        if in_defect_region(desc):
            ctx.count("kd_in_empty_source_cycle_region")
        if model != real:
            i = next((i for i, (x, y) in enumerate(zip(model, real)) if x != y), -1)
            ctx.diverge("kd_node", desc, f"op {i} {desc['ops'][i]}: model {str(model[i])[:300]} real {str(real[i])[:300]}")


def boundary_descs(rng, count) -> List[Dict[str, Any]]:
    """Scripts that take a state exactly when offset == batch length, and just around it."""
    out = []
    for _ in range(count):
        n = rng.choice([1, 2, 3])
        crit = rng.choice(CYCLE)
        d = {"crit": crit, "lens": [rng.randrange(1, 8) for _ in range(n)], "weights": gen_weights(rng, n), "worder": list(range(n)),
             "seed": rng.choice([0, 3, 99]), "rank": 0, "world_size": 1, "epochs": 1, "cap": BATCH + 30}
        if crit == "CYCLE_UNTIL_ALL_DATASETS_EXHAUSTED":
            # make the run long: one very rare source
            d["lens"] = [7] + d["lens"]
            d["weights"] = [0.0005] + [1.0] * n
            d["worder"] = list(range(n + 1))
        k = BATCH + rng.choice([-2, -1, 0, 0, 0, 1, 2])
        d["ops"] = [["next", k], ["state"], ["next", 25], ["new"], ["load", 0], ["state"], ["next", 25], ["state"]]
        out.append(d)
    return out


def run(ctx: Ctx):
    rng = ctx.rng
    reported = False

    # ---- K-D ----
    descs = []
    for i in range(ctx.n(700, 8000)):
        d = gen_case(rng, avoid_defect_region=False)   # the model follows the code in the defect region as well
        d["ops"] = gen_script(rng, d)
        descs.append(d)
    descs += boundary_descs(rng, ctx.n(12, 80))
    wd = dict(WITNESS, ops=[["next", 10, 1], ["state"]])
    descs.append(wd)
    descs.append(dict(wd, crit="CYCLE_FOREVER"))
    kd_leg(ctx, descs)
    for d in descs[:2]:
        ctx.sample({"leg": "kd_node", "desc": d})

    # ---- K-O on runs, interruption at every k ----
    for i in range(ctx.n(600, 6000)):
        d = gen_case(rng, avoid_defect_region=reported)
        bad = guarded(ctx, d, oracle_case, d)
        if bad is None:
            continue
        ctx.case("ko_run", [d["crit"], d["lens"], d["worder"], d["weights"], d["seed"], d["rank"], d["world_size"], d["epochs"]],
                 nontrivial(d, 1))
        ctx.count("ko_crit:" + d["crit"])
        ctx.count("ko_sources:%d" % len(d["lens"]))
        if 0 in d["lens"]:
            ctx.count("ko_has_empty_source")
        for kind, what in bad:
            ctx.fail(kind, d, what)
            reported = reported or kind == "empty_source_cycle"
        if bad:
            continue
        if i % 2 == 0:
            rb = guarded(ctx, d, resume_case, d) or []
            ctx.case("ko_resume", [d["crit"], d["lens"], d["worder"], d["weights"], d["seed"], d["epochs"]], nontrivial(d, 1))
            for kind, what in rb:
                ctx.fail(kind, d, what)
    ctx.note("random oracle search met the empty-source cycle defect itself (region excluded from then on): %s" % reported)

    # resume exactly at / around offset == batch length
    for d in boundary_descs(rng, ctx.n(4, 30)):
        d = dict(d, cap=BATCH + 12)
        d.pop("ops")
        ctx.case("ko_resume", ["boundary", d["crit"], d["lens"], d["weights"], d["seed"]], True)
        for kind, what in guarded(ctx, d, resume_case, d, [BATCH - 1, BATCH, BATCH + 1]) or []:
            ctx.fail(kind, d, what)

    # ---- explicit witness of the known empty-source defect (model: cycle_*_statement_false) ----
    for crit in CYCLE:
        w = dict(WITNESS, crit=crit, cap=(30 if crit == "CYCLE_FOREVER" else 400))
        ctx.case("ko_run", ["witness", crit], True)
        for kind, what in guarded(ctx, w, oracle_case, w) or []:
            ctx.fail(kind, w, what)
            reported = reported or kind == "empty_source_cycle"

    # ---- K-O on the sampler alone ----
    for i in range(ctx.n(250, 2500)):
        n = rng.choice([1, 2, 3, 4])
        ws = rng.choice([1, 2, 4])
        inp = {"weights": gen_weights(rng, n), "seed": rng.choice([0, 1, 5, 77, 2 ** 20]), "rank": rng.randrange(ws), "world_size": ws,
               "epoch": rng.choice([0, 0, 1, 2, 5]), "m": rng.choice([0, 1, 7, 500, 999, 1000, 1000, 1001, 1999, 2000, 2001, rng.randrange(0, 2500)]),
               "tail": 1100}
        ctx.case("ko_sampler", inp, inp["m"] > 0)
        ctx.count("sampler_m_mod_batch_zero" if inp["m"] % BATCH == 0 and inp["m"] else "sampler_m_other")
        for kind, what in guarded(ctx, inp, sampler_case, inp) or []:
            ctx.fail(kind, inp, what)
        if i < 1:
            ctx.sample({"leg": "ko_sampler", "inp": inp})


def escalate(ctx: Ctx):
    run(ctx)


def replay(ctx: Ctx, payload) -> Tuple[bool, str]:
    kind, inp = payload["kind"], payload["input"]
    if kind in ("ko_run", "empty_source_cycle"):
        bad = [w for k, w in oracle_case(inp) if k == kind]
        return (not bad), (bad[0] if bad else "oracle holds on this input")
    if kind == "ko_resume":
        bad = resume_case(inp)
        return (not bad), (bad[0][1] if bad else "every interruption point resumes exactly")
    if kind == "ko_sampler":
        bad = sampler_case(inp)
        return (not bad), (bad[0][1] if bad else "sampler follows the recipe and resumes exactly")
    if kind == "hang":
        try:
            with time_limit():
                if "m" in inp and "tail" in inp:
                    sampler_case(inp)
                elif "ops" in inp:
                    run_script_real(inp, ref_of(inp))
                else:
                    oracle_case(inp)
                    resume_case(inp)
        except RealHang:
            return False, f"the real code did not finish within {REAL_LIMIT_S:.0f} s"
        return True, "finished"
    if kind == "kd_script":
        try:
            run_script_real(inp, ref_of(inp))
        except Exception as e:
            return False, f"real node raised {type(e).__name__}: {e}"
        return True, "script runs"
    return True, "unknown kind"


# ------------------------------------------------------------------------------------------------
from . import _compose, c14_chain  # noqa: E402

_compose.extend(globals(), [_compose.Part("chain", c14_chain.run, c14_chain.replay)])
