"""K-T leg for the MP model (Lean `TDV.MP`, driver key "m":"mp"): protocol traces of the REAL
`_StatefulMultiProcessingDataLoaderIter` + `_worker_loop`, run as virtual processes under harness.vsched,
are replayed through the Lean transition system; every event must be the model's action with the same
payload (DESIGN.md 4.2).  Used by C01, C03, C05, C09, C10 through `run_kt(ctx, prop_tag)`.

A case is a JSON-able dict {cfg, seed, policy, script}: `cfg` is an `sdl` configuration with a deterministic
index order, `policy` the schedule policy (random | adversarial | starve_workers | starve_one), `script`
the consumer's ops.  The model's configuration (what every fetch returns) is computed from `cfg` by
`model_cfg` — a reference evaluation of sampler order, batching and the fail plan, independent of the run.
"""
from __future__ import annotations

import queue as _rq
import random
from typing import Any, Dict, List, Optional, Tuple

import torch

from .. import sdl, vsched
from ..core import Ctx
from ..leanbridge import Driver

RULE_KT = ("K-T: configurations from sdl.gen_cfg restricted to deterministic index order, W 1-4, with/without failing items, "
           "in_order both, persistent workers with a second epoch or a mid-epoch reset, kills; schedules random / adversarial timeouts / "
           "starved workers / one starved worker. A trace is non-trivial when at least one result arrived out of task order or an "
           "end-of-shard notice arrived before an earlier task's result; distinct by (cfg, policy, seed).")

GEN_KINDS = ("iter_plain", "iter_readme", "iter_ds_state", "iter_inplace")  # generator-based __iter__: an error ends the shard
KT_KINDS = ["map", "map", "map_stateful", "iter_plain", "iter_readme", "iter_ds_state", "iter_it_state", "iter_selfiter"]


# ---------------------------------------------------------------------------------------------
# batch codes and the model configuration


def code_of(batch) -> int:
    b = sdl.canon_batch(batch)
    items = b if isinstance(b, list) else [b]
    c = len(items)
    for x in items:
        c = c * 16384 + (int(x) + 1)
    return c


def _index_order(cfg) -> List[int]:
    samp = cfg.get("sampler", "seq")
    if samp in ("seq", "batch_sampler"):
        return list(range(cfg["n"]))
    if samp in ("custom_plain", "custom_stateful"):
        return sdl._order(cfg)
    raise ValueError("non-deterministic sampler " + samp)


def _chunks(xs, bs, drop_last):
    out = []
    for i in range(0, len(xs), bs):
        c = xs[i:i + bs]
        if len(c) < bs and drop_last:
            break
        out.append(c)
    return out


def shard_results(kind, n, w, bs, drop_last, fail) -> List[Optional[int]]:
    """Results of the successive fetches of worker w's `_IterableDatasetFetcher` (None = raises); after the
    list the fetch raises StopIteration."""
    fail = set(fail)
    dies = kind in GEN_KINDS
    out: List[Optional[int]] = []
    pos, dead, ended = 0, False, False

    def nxt():
        nonlocal pos, dead
        if dead or pos >= n:
            return "stop"
        x = 1000 * w + pos
        pos += 1
        if x in fail:
            if dies:
                dead = True
            return "raise"
        return x

    while True:
        if ended:
            break
        if bs is None:
            r = nxt()
            if r == "stop":
                break
            out.append(None if r == "raise" else code_of(r))
            continue
        data, raised = [], False
        for _ in range(bs):
            r = nxt()
            if r == "stop":
                ended = True
                break
            if r == "raise":
                raised = True
                break
            data.append(r)
        if raised:
            out.append(None)
            continue
        if len(data) == 0 or (drop_last and len(data) < bs):
            break
        out.append(code_of(data))
    return out


def model_cfg(cfg) -> Dict[str, Any]:
    fail = set(cfg.get("fail", ()))
    m = {"W": cfg["W"], "P": cfg.get("pf", 2), "interval": cfg.get("interval") or 0,
         "in_order": cfg.get("in_order", True) is not False, "iterable": sdl.is_iter(cfg),
         "persistent": bool(cfg.get("persistent", False)), "shards": [], "batches": []}
    if sdl.is_iter(cfg):
        m["shards"] = [shard_results(cfg["kind"], cfg["sizes"][w], w, cfg["bs"], cfg.get("drop_last", False), fail)
                       for w in range(cfg["W"])]
    else:
        order = _index_order(cfg)
        if cfg["bs"] is None:
            bl = [[i] for i in order]
            m["batches"] = [None if i in fail else code_of(i) for i in order]
        else:
            bl = _chunks(order, cfg["bs"], cfg.get("drop_last", False))
            m["batches"] = [None if fail & set(b) else code_of(b) for b in bl]
    return m


# ---------------------------------------------------------------------------------------------
# logging primitives


class _Log:
    def __init__(self):
        self.ev: List[tuple] = []


def _summ_index_msg(item):
    from torch.utils.data._utils.worker import _ResumeIteration
    from torchdata.stateful_dataloader.worker import _AckStartup
    if item is None:
        return ("stop",)
    if isinstance(item, _AckStartup):
        return ("startup",)
    if isinstance(item, _ResumeIteration):
        return ("resume",)
    idx, (index, snap) = item
    return ("task", int(idx), bool(snap))


def _summ_result(item):
    from torch._utils import ExceptionWrapper
    from torch.utils.data._utils.worker import _IterableDatasetStopIteration, _ResumeIteration
    from torchdata.stateful_dataloader.worker import _AckStartup
    a, b = item
    if isinstance(a, _AckStartup):
        return ("startup",)
    if isinstance(a, _ResumeIteration):
        return ("res", 0, "ack", 0, int(b.worker_id), b.initial_state is not None)
    data, wid, delta = b
    if isinstance(data, _IterableDatasetStopIteration):
        return ("res", int(a), "notice", 0, int(wid), delta is not None)
    if isinstance(data, ExceptionWrapper):
        return ("res", int(a), "error", 0, int(wid), delta is not None)
    return ("res", int(a), "data", code_of(data), int(wid), delta is not None)


class KTQueue(vsched.VQueue):
    """Virtual mp queue that also records a structured summary of every put / get / timed-out get."""

    def __init__(self, log: _Log, maxsize=0):
        super().__init__(maxsize, mp=True)
        self.log = log

    def put(self, item, block=True, timeout=None):
        vt = self.s.me()
        self.log.ev.append((vt.name if vt else "?", "put", self, item))
        return super().put(item, block, timeout)

    def get(self, block=True, timeout=None):
        vt = self.s.me()
        try:
            item = super().get(block, timeout)
        except _rq.Empty:
            self.log.ev.append((vt.name if vt else "?", "timeout", self, None))
            raise
        self.log.ev.append((vt.name if vt else "?", "get", self, item))
        return item


class KTEvent(vsched.VEvent):
    def __init__(self, log: _Log):
        super().__init__()
        self.log = log

    def set(self):
        self.log.ev.append(("?", "doneset", self, None))
        return super().set()


for _cls in (KTQueue, KTEvent):
    _cls.__deepcopy__ = lambda self, memo: self  # type: ignore


class KTCtx(vsched.VCtx):
    def __init__(self):
        self.log = _Log()

    def Queue(self, maxsize=0):
        return KTQueue(self.log, maxsize)

    def Event(self):
        return KTEvent(self.log)


# ---------------------------------------------------------------------------------------------
# one run


def _classify_exc(e) -> str:
    if isinstance(e, AssertionError):
        return "assertion"
    if isinstance(e, RuntimeError) and "exited unexpectedly" in str(e):
        return "workerDied"
    return "error"


def run_case(case: Dict[str, Any]) -> Tuple[List[list], Dict[str, Any]]:
    """Runs the real loader for `case` under the virtual scheduler; returns (trace, stats)."""
    cfg, seed, policy = case["cfg"], case["seed"], case["policy"]
    script = case["script"]
    kw: Dict[str, Any] = {}
    if policy == "adversarial":
        kw["adversarial"] = True
    if policy == "starve_workers":
        kw["weights"] = {"Process-": 0.1}
    if policy == "favour_workers":
        kw["weights"] = {"Process-": 8.0}
    raw_consumer: List[Tuple[int, list]] = []  # (position in log at the time, event)
    with vsched.Session(seed, **kw) as s:
        torch.manual_seed(1234)
        mpctx = KTCtx()
        log = mpctx.log
        loader = sdl.build(cfg, ctx=mpctx)

        def cons(ev):
            log.ev.append(("main", "consumer", None, ev))

        s.begin_op()
        it = iter(loader)
        itobj = loader._iterator
        if policy == "starve_one" and cfg["W"] > 1:
            s.weights[itobj._workers[seed % cfg["W"]].name] = 0.02
        start = len(log.ev)  # everything before: start-up handshake and priming
        n_obs = 0
        hang = None
        for op in script:
            s.begin_op()
            if op[0] == "next":
                cons(["next"])
                try:
                    b = next(it)
                    cons(["ret", "item", code_of(b)])
                except StopIteration:
                    cons(["ret", "stop", 0])
                    if not cfg.get("persistent"):
                        break
                except vsched.VHang as e:
                    hang = str(e)
                    break
                except Exception as e:  # noqa
                    cons(["ret", _classify_exc(e), 0])
                n_obs += 1
            elif op[0] == "drain":
                stop = False
                for _ in range(op[1]):
                    s.begin_op()
                    cons(["next"])
                    try:
                        b = next(it)
                        cons(["ret", "item", code_of(b)])
                    except StopIteration:
                        cons(["ret", "stop", 0])
                        stop = True
                        break
                    except vsched.VHang as e:
                        hang = str(e)
                        break
                    except Exception as e:  # noqa
                        cons(["ret", _classify_exc(e), 0])
                if hang or (stop and not cfg.get("persistent")):
                    break
            elif op[0] == "sd":
                sd = loader.state_dict()
                snap = sd["_snapshot"]
                cons(["sd", snap["_snapshot_step"], sd["_steps_since_snapshot"], snap["_last_yielded_worker_id"],
                      snap["_main_snapshot"]["_sampler_iter_yielded"]])
            elif op[0] == "reset":
                cons(["reset"])
                try:
                    it = iter(loader)
                    cons(["resetDone"])
                except vsched.VHang as e:
                    hang = str(e)
                    break
                except Exception as e:  # noqa  (`_reset` raised, e.g. a worker died during the resume handshake)
                    cons(["ret", _classify_exc(e), 0])
                    break  # a failed `_reset` leaves the iterator half reset; nothing is claimed about its further use
            elif op[0] == "kill":
                w = op[1]
                vt = itobj._workers[w].vt
                if vt.state != "done":
                    s.kill(vt)
                    cons(["kill", w])
        events = list(log.ev)
        iq = {id(q): i for i, q in enumerate(itobj._index_queues)}
        rq = itobj._worker_result_queue
        del it, loader, itobj
    trace, stats = translate(events, start, iq, rq)
    stats["hang"] = hang
    return trace, stats


def translate(events, start, iq, rq) -> Tuple[List[list], Dict[str, Any]]:
    """Raw (thread, op, queue, item) records -> protocol events of Drv/MP.lean."""
    trace: List[list] = []
    shutting = False
    mget_idx: List[Tuple[int, str]] = []
    # priming puts happen inside the constructor: the model's `init` already contains them; they are checked
    # through the workers' gets.  Everything else before `start` is the start-up handshake.
    for pos, (who, op, q, item) in enumerate(events):
        if op == "consumer":
            trace.append(item)
            continue
        if op == "doneset":
            shutting = True
            continue
        is_main = who == "main"
        if q is rq:
            if op == "timeout":
                if is_main and pos >= start:
                    trace.append(["mtimeout"])
                continue
            sm = _summ_result(item)
            if sm[0] == "startup":
                continue
            _, idx, kind, code, wid, has = sm
            if op == "put":
                if not shutting:
                    trace.append(["wput", wid, idx, kind, code, has])
            else:
                trace.append(["mget", idx, kind, wid])
                if kind != "ack":
                    mget_idx.append((idx, kind))
        elif id(q) in iq:
            w = iq[id(q)]
            if op == "timeout":
                continue
            sm = _summ_index_msg(item)
            if sm[0] == "startup":
                continue
            if op == "put":
                if pos < start:
                    continue  # priming, already in the model's initial state
                if sm[0] == "task":
                    trace.append(["mput", w, sm[1], sm[2]])
                elif sm[0] == "stop":
                    trace.append(["mputNone", w])
                else:
                    trace.append(["mputResume", w])
            else:
                if not shutting:
                    trace.append(["wget", w, list(sm)])
    ooo = early = 0
    for i, (idx, kind) in enumerate(mget_idx):
        later_smaller = any(j < idx for j, _ in mget_idx[i + 1:])
        if later_smaller:
            ooo += 1
            if kind == "notice":
                early += 1
    return trace, {"out_of_order": ooo, "early_notice": early, "events": len(trace)}


# ---------------------------------------------------------------------------------------------
# case generator


def gen_case(rng: random.Random, prop_tag: str) -> Dict[str, Any]:
    kinds = KT_KINDS
    if prop_tag in ("C09",):
        kinds = KT_KINDS
    cfg = sdl.gen_cfg(rng, kinds=kinds, max_w=4, allow_shuffle=False)
    if cfg["W"] == 0:
        cfg["W"] = rng.choice([1, 2, 3, 4])
        cfg["pf"] = rng.choice([1, 2, 2, 3])
        cfg["persistent"] = rng.random() < 0.3
        if sdl.is_iter(cfg):
            while len(cfg["sizes"]) < cfg["W"]:
                cfg["sizes"].append(rng.choice([0, 1, 2, 3, 5, 7]))
    if rng.random() < (0.15 if prop_tag != "C03" else 0.3):
        cfg["in_order"] = False
    want_fail = {"C10": 0.7, "C09": 0.1}.get(prop_tag, 0.3)
    if rng.random() < want_fail:
        if sdl.is_iter(cfg):
            pool = [1000 * w + i for w, sz in enumerate(cfg["sizes"]) for i in range(sz)]
        else:
            pool = list(range(cfg["n"]))
        if pool:
            cfg["fail"] = sorted(rng.sample(pool, min(len(pool), rng.choice([1, 1, 2, 3]))))
    policy = rng.choice(["random", "random", "adversarial", "starve_workers", "starve_one", "favour_workers"])
    total = sdl.epoch_len_hint(cfg) + 3
    script: List[list] = []
    r = rng.random()
    sd_every = rng.random() < 0.6
    kill_at = None
    if prop_tag == "C09" or rng.random() < 0.1:
        kill_at = rng.randrange(0, max(1, total))
    # a dataset object that keeps its position across iter() calls makes the epoch after a mid-epoch reset (or
    # after an error) start elsewhere: that is dataset behaviour, not protocol; the model restarts every shard
    restartable = cfg["kind"] in ("map", "map_stateful", "iter_plain", "iter_it_state") and cfg.get("sampler") != "custom_stateful"
    reset_at = None
    if cfg.get("persistent") and restartable and rng.random() < 0.5:
        reset_at = rng.randrange(0, max(1, total))
    for k in range(total):
        if sd_every or rng.random() < 0.2:
            script.append(["sd"])
        if kill_at == k:
            script.append(["kill", rng.randrange(cfg["W"])])
        if reset_at == k:
            script.append(["reset"])
        script.append(["next"])
    script.append(["sd"])
    if cfg.get("persistent") and (restartable or (not cfg.get("fail") and kill_at is None)):
        # a second epoch on the same iterator
        script.append(["reset"])
        script.append(["sd"])
        script.append(["drain", total])
        script.append(["sd"])
    return {"cfg": cfg, "seed": rng.randrange(1 << 30), "policy": policy, "script": script}


def _job(ctx: Ctx, cases: List[Dict[str, Any]]):
    torch.set_num_threads(1)
    reqs, metas = [], []
    for case in cases:
        try:
            trace, st = run_case(case)
        except Exception as e:  # construction failed etc.
            ctx.note(f"kt_mp: case could not run: {type(e).__name__}: {str(e)[:200]} {case['cfg']}")
            ctx.count("kt_mp:not_run")
            continue
        reqs.append({"m": "mp", "cfg": model_cfg(case["cfg"]), "trace": trace})
        metas.append((case, st))
    if not reqs:
        return 0
    answers = Driver().run(reqs)
    for (case, st), ans, req in zip(metas, answers, reqs):
        cfg = case["cfg"]
        nontriv = st["out_of_order"] > 0 or st["early_notice"] > 0
        ctx.case("kt_mp", [cfg, case["policy"], case["seed"]], nontriv)
        ctx.count("kt_mp:policy:" + case["policy"])
        ctx.count("kt_mp:kind:" + ("iterable" if sdl.is_iter(cfg) else "map"))
        ctx.count("kt_mp:W:" + str(cfg["W"]))
        if cfg.get("fail"):
            ctx.count("kt_mp:with_failing_items")
        if cfg.get("in_order") is False:
            ctx.count("kt_mp:in_order_false")
        if cfg.get("persistent"):
            ctx.count("kt_mp:persistent")
        if st["out_of_order"]:
            ctx.count("kt_mp:traces_with_out_of_order_arrival")
        if st["early_notice"]:
            ctx.count("kt_mp:traces_with_early_notice")
        if st.get("hang"):
            ctx.count("kt_mp:hang_in_run")
        ctx.model_lines += st["events"]
        if isinstance(ans, dict) and ans.get("ok") is True:
            ctx.traces_validated += 1
        else:
            at = ans.get("at") if isinstance(ans, dict) else None
            lo = max(0, (at or 0) - 6)
            detail = f"{ans}  trace[{lo}:{(at or 0) + 2}]={req['trace'][lo:(at or 0) + 2]}"
            ctx.diverge("kt_mp", case, detail[:1500])
    return len(reqs)


def run_kt(ctx: Ctx, prop_tag: str, quick: int = 280, thorough: int = 6000):
    """K-T leg for property `prop_tag` (C01/C03/C05/C09/C10): generated cases -> real runs -> Lean acceptor."""
    n = ctx.n(quick, thorough)
    rng = ctx.sub_rng("kt_mp", prop_tag)
    cases = [gen_case(rng, prop_tag) for _ in range(n)]
    if cases:
        ctx.sample({"leg": "kt_mp", "case": {k: cases[0][k] for k in ("cfg", "policy", "seed")}})
    nchunks = max(1, min(14, len(cases) // 8))
    chunks = [cases[i::nchunks] for i in range(nchunks)]
    ctx.pmap(_job, chunks)


def replay_kt(case: Dict[str, Any]) -> Tuple[bool, str]:
    trace, st = run_case(case)
    ans = Driver().run([{"m": "mp", "cfg": model_cfg(case["cfg"]), "trace": trace}])[0]
    return bool(isinstance(ans, dict) and ans.get("ok")), str(ans)[:600]


# ---------------------------------------------------------------------------------------------
# the former C10-a witness (regression `example` after `TDV.MP.error_position` in Props/MP.lean), replayed on the real code

C10A_CFG = {"kind": "map", "n": 6, "bs": 1, "drop_last": False, "W": 2, "pf": 2, "persistent": False, "interval": 2,
            "sampler": "seq", "fail": [2]}
C10A_EXPECT = ["item", "item", "error", "item", "item", "item", "stop"]
C10A_EXPECT_BEFORE_FIX = ["item", "item", "error", "item", "assertion", "item", "stop"]


def replay_c10a(seeds=(0, 1, 2)) -> Tuple[bool, str]:
    """Runs the former C10-a witness configuration (snapshot_every_n_steps=2, two workers, the third batch fails) on
    the real loader under several schedules, and the model on the trace; returns (the real code shows the complete
    observation sequence of the Lean regression example AND the model accepts every trace, description).  Before repo
    fix f1014eb the observations were item,item,error,item,AssertionError,item,stop (batch 14 lost)."""
    seen = []
    for sd in seeds:
        case = {"cfg": C10A_CFG, "seed": sd, "policy": "random", "script": [["next"]] * 8}
        trace, _ = run_case(case)
        kinds = [e[1] for e in trace if e[0] == "ret"]
        ans = Driver().run([{"m": "mp", "cfg": model_cfg(C10A_CFG), "trace": trace}])[0]
        seen.append((kinds, bool(isinstance(ans, dict) and ans.get("ok"))))
    complete = all(k == C10A_EXPECT for k, _ in seen)
    agree = all(ok for _, ok in seen)
    return complete and agree, (f"real observations {seen[0][0]} (Lean regression example: {C10A_EXPECT}; before the fix: "
                                f"{C10A_EXPECT_BEFORE_FIX}); model accepts the traces: {agree}")
