"""Theorems contributed by lean Props/C01E2E.lean (namespace TDV.E2E): property C01 stated END-TO-END, i.e. the
`StatefulDataLoader` facade (`__iter__`, `state_dict`, `load_state_dict`, `_get_iterator`, `_iterator`, `next_iter_state`,
`_initial_iter_for_state_dict`, `_finished`; C13's `TDV.SDLApi`) composed with the REAL iterator models
(`TDV.SP` single-process; `TDV.MPR` multi-process map-style) instead of an iterator whose state_dict/load is exact by
assumption.

Structure: `IterClass` (constructor from an optional state over the objects that outlive an iterator, next, state_dict,
_finished), the facade `Fac.*` over any class, the abstract iterator of SDLApi as the class `idealIC epochs`, the interface
`Meets IC epochs`, and the usage discipline `wellUsed` (a new iterator is built only between epochs or on a new loader that
was given a state; no next() after StopIteration; no use of a dropped iterator).  `sp_*_meets`: the single-process
iterator meets the interface under exactly the hypotheses of the TDV.SP theorems (IdxLaw / IterLaw / StateLaw, dataset
and collate_fn never raise, generator not shared with the loader).

No Python legs of their own: the iterator models are tied to the code by sp_kd.py / mpr_kd.py / c01.py, the facade by
c13.py / sdl_ko.py; this module adds machine-checked theorems and one replayable witness.

FINDING (about the MODEL `TDV.SDLApi`, not about /repo): in `TDV.SDLApi` and its reference `SDLApi.Ref` the index of the
next fresh epoch stream is a counter of the loader OBJECT (`g` / `starts`), reset by `fresh` and untouched by
`load_state_dict`.  For the real iterators it is part of what a state dict restores (the sampler's generator state), so
after resuming epoch e the next stream is e+1 - which is what C01 demands and what the Python code does
(`replay_witness`).  `refines_sdlapi_statement` is therefore false (`refines_sdlapi_statement_false`); it holds when all
epochs are alike (`refines_sdlapi_partial`: sequential / fixed-order samplers, iterable datasets)."""
from __future__ import annotations

LEAN_MODULES = ["TorchDataVerif.Props.C01E2E"]
T = "TDV.E2E."
THEOREMS_BY_PROP = {
    "C01": [T + n for n in (
        # any iterator class that meets the interface
        "sdl_refines_ideal", "sdl_stream", "sdl_resume_exact", "sdl_resume_exact_any", "sdl_resume_exact_finished",
        "sdl_chain",
        # single-process iterator, map-style
        "sp_map_meets", "sdl_sp_stream", "sdl_sp_resume_exact", "sdl_sp_chain", "mapHyp_random",
        # single-process iterator, iterable (dataset with state / fast-forward)
        "sp_iter_state_meets", "sp_iter_ffwd_meets", "sdl_sp_iter_resume_exact", "sdl_sp_ffwd_resume_exact",
        "iterHyp_batch", "iterHyp_one",
        # multi-process iterator, map-style, non-persistent workers
        "sdl_mp_map_resume_exact")],
    "C08": [T + n for n in ("sdl_state_dict_transparent", "sdl_sp_state_dict_transparent")],
    "C13": [T + n for n in (
        "refines_sdlapi_statement_false", "refines_sdlapi_partial", "ideal_eq_sdlapi", "sdl_sp_iter_refines_sdlapi")],
}
THEOREMS = sorted({t for ts in THEOREMS_BY_PROP.values() for t in ts})

# Replay recipe of the refuted statement `TDV.E2E.refines_sdlapi_statement` (Lean witness: epoch e = [e]; ops =
# iter, next, state_dict, fresh, load 0, iter, next(stop), iter, next): on the real code with a RandomSampler,
# the epoch FOLLOWING a resumed epoch 0 in a new loader is the original's epoch 1 (ideal class), not its epoch 0 (SDLApi).
WITNESS = {
    "dataset": "map-style, 6 items", "batch_size": 2, "shuffle": True, "num_workers": 0,
    "ops": ["iter", "next", "state_dict", "fresh (other global seed)", "load 0", "for-loop", "for-loop"],
    "expected": {"rest_of_epoch_exact": True, "following_epoch_is_original_epoch_1": True,
                 "following_epoch_is_original_epoch_0": False},
}


def replay_witness() -> dict:
    """Run WITNESS on /repo (in-process, deterministic) and return the three booleans of WITNESS['expected']."""
    import sys
    import warnings
    sys.path.insert(0, "/repo")
    import torch
    from torchdata.stateful_dataloader import StatefulDataLoader

    class DS(torch.utils.data.Dataset):
        def __len__(self):
            return 6

        def __getitem__(self, i):
            return i

    def mk(seed):
        torch.manual_seed(seed)
        with warnings.catch_warnings():
            warnings.simplefilter("ignore")
            return StatefulDataLoader(DS(), batch_size=2, shuffle=True, num_workers=0)

    dl = mk(0)
    e0 = [b.tolist() for b in dl]
    e1 = [b.tolist() for b in dl]
    dl = mk(0)
    it = iter(dl)
    next(it)
    sd = dl.state_dict()
    dl2 = mk(12345)
    dl2.load_state_dict(sd)
    r0 = [b.tolist() for b in dl2]
    r1 = [b.tolist() for b in dl2]
    return {"rest_of_epoch_exact": r0 == e0[1:], "following_epoch_is_original_epoch_1": r1 == e1,
            "following_epoch_is_original_epoch_0": r1 == e0}


if __name__ == "__main__":
    got = replay_witness()
    print(got)
    assert got == WITNESS["expected"], got
