"""C06 - nodes thread protocols: parts from the Prefetcher (PF) and ParallelMapper (PM) protocol models: theorems over every
interleaving, trace validation of the real threads under the virtual scheduler (K-T), and oracles on the real code (K-O)."""
from __future__ import annotations

from . import _compose, pf_parts

RULE = 'Prefetcher / ParallelMapper over sources of length 0-8, prefetch 1-4, snapshot_frequency 0-4, random and adversarial-timeout schedules; state_dict at every consumer position resumed into a fresh node; traces replayed through the protocol model. Non-trivial: the reader was at least one item ahead of the consumer or a timeout fired; distinct by (case, schedule).'
EXPLANATION = 'Lean: PF/PM.state_tracks_consumer - in every reachable state with the consumer outside next(), (snapshot, steps) is the closed form in the number m of delivered items only, for every action sequence. Tie: trace validation of the real threads. Oracle: resume from every position under many schedules.'
ASSUMPTIONS = ["the real reader/worker/sorter threads run on virtual threading/queue/time primitives (harness/vsched.py); virtual time only"]

PARTS = pf_parts.parts("C06")

from . import refine_parts
PARTS.append(_compose.theorem_part("refine", refine_parts.THEOREMS_BY_PROP.get("C06", []), refine_parts.LEAN_MODULES))
try:
    from . import pm_parts
    PARTS += pm_parts.parts("C06")
except ImportError:
    pass
_compose.assemble(globals(), PARTS, RULE, EXPLANATION, ASSUMPTIONS)
