"""StatefulDataLoader harness: dataset kinds, configuration generator, builders and runners used by the
SDL properties (C01, C03, C05, C07, C09, C10, C13, C16, C17).  All loaders with num_workers > 0 run
their real `_worker_loop` as *virtual processes* under harness.vsched (cfg["real_mp"] switches to real
processes for the thorough-tier slice).

A configuration is a JSON-able dict:
  kind       map | map_stateful | iter_plain | iter_readme | iter_ds_state | iter_it_state | iter_selfiter
  sizes      per-worker shard sizes for iterable kinds (len == max(W,1)); n = dataset length for map kinds
  W, bs (None = no auto-collation), drop_last, pf, persistent, interval (snapshot_every_n_steps),
  sampler    seq | shuffle | shuffle_gen | custom_stateful | custom_plain | batch_sampler | rand_repl | rand_multi (opt-in)
  in_order
"""
from __future__ import annotations

import copy
import pickle
import random
import warnings
from typing import Any, Dict, List, Optional, Tuple

import torch
import torch.utils.data as tud

from . import vsched

warnings.filterwarnings("ignore", message=".*set_vital.*")
warnings.filterwarnings("ignore", message=".*does not give any guarantees.*")

import logging

logging.getLogger("torchdata.stateful_dataloader.stateful_dataloader").setLevel(logging.ERROR)

# ---------------------------------------------------------------------------------------------
# datasets.  Items are ints `1000*shard + i` so a batch identifies worker and position.


def _wid():
    wi = vsched.get_worker_info() if vsched.CUR is not None else tud.get_worker_info()
    return (wi.id, wi.num_workers) if wi is not None else (0, 1)


class FailPlan:
    """Items (global item codes) whose production raises; shared by all dataset kinds."""

    def __init__(self, fail_items=(), state_fail=()):
        self.fail_items = set(fail_items)
        self.state_fail = set(state_fail)  # positions at which state_dict() raises

    def check(self, code):
        slow = getattr(self, "slow_items", None)
        if slow and code in slow and code not in self.__dict__.setdefault("_slept", set()):
            # a fetch that is slow once (virtual seconds): with `timeout=` the consumer sees "DataLoader timed out" and retries
            self._slept.add(code)
            s = vsched.CUR
            if s is not None and not s.closed and s.me() is not None:
                s.switch(lambda: False, slow[code])
        if code in self.fail_items:
            raise ValueError(f"planned failure at item {code}")
        if code in getattr(self, "kill_items", ()):
            import os
            import signal
            os.kill(os.getpid(), signal.SIGKILL)  # real-process slice only: the worker kills itself mid-fetch


class MapDS(tud.Dataset):
    def __init__(self, n, fail=()):
        self.n = n
        self.fail = FailPlan(fail)

    def __len__(self):
        return self.n

    def __getitem__(self, i):
        self.fail.check(i)
        return i


class MapDSStateful(MapDS):
    """Map-style dataset with its own state (a call counter), as in the repo's tests."""

    def __init__(self, n, fail=()):
        super().__init__(n, fail)
        self.calls = 0

    def __getitem__(self, i):
        self.calls += 1
        return super().__getitem__(i)

    def state_dict(self):
        return {"calls": self.calls}

    def load_state_dict(self, sd):
        self.calls = sd["calls"]


class MapFalsy(MapDS):
    """Stateful map-style dataset whose state is FALSY before the first fetch ({}), and whose items depend on its state."""

    def __init__(self, n, fail=()):
        super().__init__(n, fail)
        self.calls = 0

    def __getitem__(self, i):
        self.fail.check(i)
        self.calls += 1
        return 1000 * (self.calls - 1) + i

    def state_dict(self):
        return {"calls": self.calls} if self.calls else {}

    def load_state_dict(self, sd):
        self.calls = sd.get("calls", 0)


class MapRng(MapDS):
    """Items depend on the per-worker global RNG (seeded by the loader's base seed): the same checkpoint must give
    the same continuation every time it is loaded, whatever the loading process' own seed is."""

    def __getitem__(self, i):
        self.fail.check(i)
        import numpy as np
        # one draw from each global RNG a worker seeds (torch, python random, numpy)
        return 1_000_000 * i + 10_000 * int(torch.randint(0, 100, (1,)).item()) + 100 * random.randrange(100) + int(np.random.randint(0, 100))


class IterPlain(tud.IterableDataset):
    """No state_dict anywhere: the loader must fast-forward."""

    def __init__(self, sizes, fail=()):
        self.sizes = list(sizes)
        self.fail = FailPlan(fail)

    def __iter__(self):
        w, _ = _wid()
        for i in range(self.sizes[w]):
            self.fail.check(1000 * w + i)
            yield 1000 * w + i


class IterReadme(tud.IterableDataset):
    """The README's MyIterableDataset, verbatim in structure: generator __iter__ continuing from self.i
    and resetting self.i = 0 once exhausted."""

    def __init__(self, sizes, fail=()):
        self.sizes = list(sizes)
        self.i = 0
        self.fail = FailPlan(fail)

    def __iter__(self):
        w, _ = _wid()
        n = self.sizes[w]
        for idx in range(self.i, n):
            self.i += 1
            self.fail.check(1000 * w + idx)
            yield 1000 * w + idx
        self.i = 0

    def state_dict(self):
        return {"i": self.i}

    def load_state_dict(self, sd):
        self.i = sd["i"]


class IterStartFail(tud.IterableDataset):
    """Plain iterable dataset whose __iter__ ITSELF raises on chosen calls (a transient failure while opening the shard
    at the start of an epoch).  start_fail: {worker id: [call numbers, 1-based]}."""

    def __init__(self, sizes, start_fail):
        self.sizes = list(sizes)
        self.start_fail = {int(k): set(v) for k, v in dict(start_fail).items()}
        self.calls = 0

    def __iter__(self):
        w, _ = _wid()
        self.calls += 1
        if self.calls in self.start_fail.get(w, ()):
            raise ValueError(f"planned failure at the start of epoch {self.calls} in worker {w}")
        return iter([1000 * w + i for i in range(self.sizes[w])])


class IterDsState(tud.IterableDataset):
    """Dataset-level state; generator __iter__ continuing from self.i.  It keeps its end position and a
    `done` flag set when the generator notices exhaustion; a later __iter__ (next epoch on the same
    object) starts over iff `done`.  So restoring the state taken after j items yields the items after
    j, for every j up to and including the shard size."""

    def __init__(self, sizes, fail=(), inplace=False):
        self.sizes = list(sizes)
        self.i = 0
        self.done = False
        self.fail = FailPlan(fail)
        self.inplace = inplace
        self.buf: List[int] = []
        self.t = torch.zeros(1, dtype=torch.int64)

    def __iter__(self):
        w, _ = _wid()
        n = self.sizes[w]
        if self.done:
            self.i = 0
            self.done = False
            self.buf.clear()
            self.t.zero_()
        while self.i < n:
            idx = self.i
            self.i += 1
            if self.inplace:
                self.buf.append(idx)
                self.t.add_(1)
            self.fail.check(1000 * w + idx)
            yield 1000 * w + idx
        self.done = True

    def state_dict(self):
        if self.inplace:
            return {"i": self.i, "done": self.done, "buf": self.buf, "t": self.t}
        return {"i": self.i, "done": self.done}

    def load_state_dict(self, sd):
        self.i = sd["i"]
        self.done = sd["done"]
        if self.inplace:
            self.buf = list(sd["buf"])
            self.t = sd["t"].clone()


class IterBump(IterDsState):
    """Like IterDsState, plus a generation counter that load_state_dict bumps IN PLACE in the dict it is handed
    (datasets that migrate / normalise the loaded dict do this); state_dict reports the bumped value."""

    def __init__(self, sizes, fail=()):
        super().__init__(sizes, fail)
        self.gen = 0

    def state_dict(self):
        return {"i": self.i, "done": self.done, "gen": self.gen}

    def load_state_dict(self, sd):
        sd["gen"] = sd.get("gen", 0) + 1
        self.i = sd["i"]
        self.done = sd["done"]
        self.gen = sd["gen"]


class _StatefulIt:
    def __init__(self, ds, w):
        self.ds, self.w, self.i = ds, w, 0

    def __iter__(self):
        return self

    def __next__(self):
        if self.i >= self.ds.sizes[self.w]:
            raise StopIteration
        idx = self.i
        self.i += 1
        self.ds.fail.check(1000 * self.w + idx)
        return 1000 * self.w + idx

    def state_dict(self):
        if (1000 * self.w + self.i) in self.ds.fail.state_fail:
            raise ValueError(f"planned state_dict failure at position {self.i} of shard {self.w}")
        return {"i": self.i, "nested": {"half": self.i // 2} if self.i % 3 else {}}

    def load_state_dict(self, sd):
        self.i = sd["i"]


class IterItState(tud.IterableDataset):
    """Only the iterator returned by __iter__ is stateful."""

    def __init__(self, sizes, fail=(), state_fail=()):
        self.sizes = list(sizes)
        self.fail = FailPlan(fail, state_fail)

    def __iter__(self):
        return _StatefulIt(self, _wid()[0])


class IterSelfIter(tud.IterableDataset):
    """__iter__ returns self (dataset is its own iterator), stateful; a new __iter__ call after the
    exhaustion was noticed (StopIteration raised) starts over."""

    def __init__(self, sizes, fail=()):
        self.sizes = list(sizes)
        self.i = 0
        self.done = False
        self.fail = FailPlan(fail)

    def __iter__(self):
        if self.done:
            self.i = 0
            self.done = False
        return self

    def __next__(self):
        w = _wid()[0]
        if self.i >= self.sizes[w]:
            self.done = True
            raise StopIteration
        idx = self.i
        self.i += 1
        self.fail.check(1000 * w + idx)
        return 1000 * w + idx

    def state_dict(self):
        return {"i": self.i, "done": self.done}

    def load_state_dict(self, sd):
        self.i = sd["i"]
        self.done = sd["done"]


class _EagerIt:
    def __init__(self, ds, w, start):
        self.ds, self.w, self.pos = ds, w, start

    def __iter__(self):
        return self

    def __next__(self):
        if self.pos >= self.ds.sizes[self.w]:
            self.ds.done = True
            raise StopIteration
        idx = self.pos
        self.pos += 1
        self.ds.i = self.pos
        self.ds.fail.check(1000 * self.w + idx)
        return 1000 * self.w + idx


class IterDsEager(tud.IterableDataset):
    """Stateful dataset whose __iter__ builds a separate (non-stateful) iterator EAGERLY from the
    dataset's current position: the dataset state must be restored before iter(dataset) is called."""

    def __init__(self, sizes, fail=()):
        self.sizes = list(sizes)
        self.i = 0
        self.done = False
        self.fail = FailPlan(fail)

    def __iter__(self):
        if self.done:
            self.i = 0
            self.done = False
        return _EagerIt(self, _wid()[0], self.i)

    def state_dict(self):
        return {"i": self.i, "done": self.done}

    def load_state_dict(self, sd):
        self.i = sd["i"]
        self.done = sd["done"]


class PlainSampler(tud.Sampler):
    """A user sampler without state (the loader must skip ahead)."""

    def __init__(self, order):
        self.order = list(order)

    def __iter__(self):
        return iter(self.order)

    def __len__(self):
        return len(self.order)


class StatefulSampler(tud.Sampler):
    """A user sampler with state_dict/load_state_dict on the sampler object (it is its own iterator, as
    in the repo's tests).  Once exhausted it keeps raising StopIteration until the next iter()."""

    def __init__(self, order):
        self.order = list(order)
        self.i = 0
        self.done = False

    def __iter__(self):
        if self.done:
            self.i = 0
            self.done = False
        return self

    def __next__(self):
        if self.i >= len(self.order):
            self.done = True
            raise StopIteration
        v = self.order[self.i]
        self.i += 1
        return v

    def __len__(self):
        return len(self.order)

    def state_dict(self):
        return {"i": self.i, "done": self.done}

    def load_state_dict(self, sd):
        self.i = sd["i"]
        self.done = sd["done"]


ITER_KINDS = ["iter_plain", "iter_readme", "iter_ds_state", "iter_it_state", "iter_selfiter", "iter_inplace", "iter_ds_eager"]
MAP_KINDS = ["map", "map_stateful"]


def is_iter(cfg):
    return cfg["kind"].startswith("iter")


def make_dataset(cfg):
    ds = _make_dataset(cfg)
    if cfg.get("kill_items"):
        ds.fail.kill_items = set(cfg["kill_items"])
    if cfg.get("slow_items"):
        ds.fail.slow_items = {int(k): float(v) for k, v in dict(cfg["slow_items"]).items()}
    return ds


def _make_dataset(cfg):
    fail = cfg.get("fail", ())
    k = cfg["kind"]
    if k == "map":
        return MapDS(cfg["n"], fail)
    if k == "map_stateful":
        return MapDSStateful(cfg["n"], fail)
    if k == "map_rng":
        return MapRng(cfg["n"], fail)
    if k == "map_falsy":
        return MapFalsy(cfg["n"], fail)
    sizes = cfg["sizes"]
    if k == "iter_start_fail":
        return IterStartFail(sizes, cfg.get("start_fail", {}))
    if k == "iter_plain":
        return IterPlain(sizes, fail)
    if k == "iter_readme":
        return IterReadme(sizes, fail)
    if k == "iter_ds_state":
        return IterDsState(sizes, fail)
    if k == "iter_inplace":
        return IterDsState(sizes, fail, inplace=True)
    if k == "iter_it_state":
        return IterItState(sizes, fail, cfg.get("state_fail", ()))
    if k == "iter_selfiter":
        return IterSelfIter(sizes, fail)
    if k == "iter_ds_eager":
        return IterDsEager(sizes, fail)
    if k == "iter_bump":
        return IterBump(sizes, fail)
    raise ValueError(k)


def _order(cfg):
    r = random.Random(cfg.get("order_seed", 7))
    o = list(range(cfg["n"]))
    r.shuffle(o)
    if cfg.get("sampler_len") is not None:
        o = o[: cfg["sampler_len"]]  # a user sampler over a subset of the dataset (possibly empty, e.g. a rank without samples)
    return o


def build(cfg, cls=None, ctx=None):
    """Build a loader from cfg. cls defaults to StatefulDataLoader; torch's DataLoader for C03."""
    from torchdata.stateful_dataloader import StatefulDataLoader

    cls = cls or StatefulDataLoader
    ds = make_dataset(cfg)
    kw: Dict[str, Any] = dict(num_workers=cfg["W"])
    if cfg["W"] > 0:
        kw["prefetch_factor"] = cfg.get("pf", 2)
        kw["persistent_workers"] = cfg.get("persistent", False)
        if not cfg.get("real_mp"):
            kw["multiprocessing_context"] = ctx or vsched.VCtx()
        if cfg.get("in_order") is False:
            kw["in_order"] = False
        if cfg.get("timeout"):
            kw["timeout"] = cfg["timeout"]
    if cls is StatefulDataLoader:
        kw["snapshot_every_n_steps"] = cfg.get("interval", 1)
    if cfg.get("collate_fail") is not None:
        bad = set(cfg["collate_fail"])

        def collate(b, _bad=bad):
            items = b if isinstance(b, list) else [b]
            if _bad & set(int(x) for x in items):
                raise KeyError("planned collate failure")
            return tud.default_collate(b) if isinstance(b, list) else b

        kw["collate_fn"] = collate
    if cfg.get("init_fail") is not None:
        badw = set(cfg["init_fail"])

        def init_fn(w, _b=badw):
            if w in _b:
                raise RuntimeError("planned worker_init_fn failure")

        kw["worker_init_fn"] = init_fn
    samp = cfg.get("sampler", "seq")
    if is_iter(cfg):
        return cls(ds, batch_size=cfg["bs"], drop_last=cfg.get("drop_last", False) if cfg["bs"] is not None else False, **kw)
    if samp == "batch_sampler":
        from torchdata.stateful_dataloader.sampler import BatchSampler as SBS
        inner = tud.SequentialSampler(ds)
        bsamp = (SBS if cls is StatefulDataLoader else tud.BatchSampler)(inner, cfg["bs"] or 1, cfg.get("drop_last", False))
        return cls(ds, batch_sampler=bsamp, **kw)
    common = dict(batch_size=cfg["bs"], drop_last=cfg.get("drop_last", False) if cfg["bs"] is not None else False)
    if samp == "seq":
        return cls(ds, shuffle=False, **common, **kw)
    if samp == "shuffle":
        return cls(ds, shuffle=True, **common, **kw)
    if samp == "shuffle_gen":
        g = torch.Generator()
        g.manual_seed(cfg.get("gen_seed", 11))
        return cls(ds, shuffle=True, generator=g, **common, **kw)
    if samp in ("rand_repl", "rand_multi"):
        # torchdata's stateful RandomSampler as a user-supplied sampler: with replacement (index buffer refilled every 32
        # draws) or num_samples > len(dataset) (several permutations per epoch)
        from torchdata.stateful_dataloader.sampler import RandomSampler as SRS
        g = torch.Generator()
        g.manual_seed(cfg.get("gen_seed", 11))
        RS = SRS if cls is StatefulDataLoader else tud.RandomSampler
        return cls(ds, sampler=RS(ds, replacement=(samp == "rand_repl"), num_samples=cfg["ns"], generator=g), **common, **kw)
    if samp == "custom_plain":
        return cls(ds, sampler=PlainSampler(_order(cfg)), **common, **kw)
    if samp == "custom_stateful":
        return cls(ds, sampler=StatefulSampler(_order(cfg)), **common, **kw)
    raise ValueError(samp)


def canon_batch(b):
    if isinstance(b, torch.Tensor):
        return b.tolist()
    if isinstance(b, (list, tuple)):
        return [canon_batch(x) for x in b]
    return b


# ---------------------------------------------------------------------------------------------
# configuration generator


def gen_cfg(rng: random.Random, kinds=None, max_w=3, allow_shuffle=True, small=True, rand_samplers=0.0) -> Dict[str, Any]:
    kinds = kinds or (MAP_KINDS + ITER_KINDS)
    kind = rng.choice(kinds)
    W = rng.choice([0, 1, 2, 2, 3, 3][: 2 + 2 * max_w] if max_w < 3 else [0, 1, 2, 2, 3, 3, 4])
    W = min(W, max_w)
    bs = rng.choice([None, 1, 2, 2, 3, 4])
    cfg: Dict[str, Any] = {"kind": kind, "W": W, "bs": bs, "drop_last": (rng.random() < 0.35) if bs is not None else False}
    if W > 0:
        cfg["pf"] = rng.choice([1, 2, 2, 3])
        cfg["persistent"] = rng.random() < 0.3
    cfg["interval"] = rng.choice([1, 1, 2, 3, 5, 7, 0, None])
    if kind.startswith("iter"):
        nsh = max(W, 1)
        hi = 7 if small else 14
        sizes = [rng.choice([0, 1, 2, 3, 4, 5, hi, rng.randrange(0, hi + 1)]) for _ in range(nsh)]
        if sum(sizes) == 0 and rng.random() < 0.8:
            sizes[rng.randrange(nsh)] = rng.randrange(1, hi)
        cfg["sizes"] = sizes
    else:
        cfg["n"] = rng.choice([0, 1, 2, 3, 5, 7, 8, 9, 12, rng.randrange(0, 14)])
        samps = ["seq", "seq", "custom_plain", "custom_stateful", "batch_sampler"]
        if allow_shuffle:
            samps += ["shuffle", "shuffle_gen"]
        cfg["sampler"] = rng.choice(samps)
        if cfg["sampler"] == "batch_sampler":
            cfg["bs"] = bs or 2
        if cfg["sampler"] in ("custom_plain", "custom_stateful") and rng.random() < 0.35:
            cfg["sampler_len"] = rng.choice([0, 0, 1, max(cfg["n"] - 1, 0), rng.randrange(0, cfg["n"] + 1)])
        if cfg["n"] == 0 and cfg["sampler"] in ("shuffle", "shuffle_gen"):
            cfg["n"] = 1  # torch rejects RandomSampler over an empty dataset at construction
        if rand_samplers and rng.random() < rand_samplers:
            cfg.pop("sampler_len", None)
            cfg["sampler"] = rng.choice(["rand_repl", "rand_multi"])
            cfg["n"] = rng.choice([3, 4, 5, 7])
            cfg["ns"] = rng.choice([33, 36, 41]) if cfg["sampler"] == "rand_repl" else 2 * cfg["n"] + rng.choice([0, 1, 3])
            cfg["bs"] = rng.choice([None, 2, 3, 4]) if cfg["sampler"] == "rand_multi" else rng.choice([3, 4, 5])
            cfg["drop_last"] = cfg["drop_last"] if cfg["bs"] is not None else False
            cfg["gen_seed"] = rng.randrange(1000)
    return cfg


def epoch_len_hint(cfg) -> int:
    if is_iter(cfg):
        return sum(cfg["sizes"])
    return cfg["n"]


# ---------------------------------------------------------------------------------------------
# runners (must be called inside a vsched.Session when W > 0 and not real_mp)


class Outcome:
    """Observation sequence of a consumer that catches and continues."""


def take(it, sched=None):
    """One next() on iterator `it`: ('item', batch) | ('stop',) | ('error', ExcTypeName) | ('hang', msg)."""
    if sched is not None:
        sched.begin_op()
    try:
        b = next(it)
        return ("item", canon_batch(b))
    except StopIteration:
        return ("stop",)
    except vsched.VHang as e:
        return ("hang", str(e))
    except Exception as e:  # noqa
        if type(e) is RuntimeError and "DataLoader timed out after" in str(e):
            return ("timeout",)
        return ("error", type(e).__name__)


def run_epochs(loader, epochs: int, sched=None, max_items=10_000) -> List[List[Any]]:
    """Uninterrupted run: list of epochs, each a list of observations up to and including the stop."""
    out = []
    for _ in range(epochs):
        ep = []
        it = iter(loader)
        while len(ep) < max_items:
            o = take(it, sched)
            ep.append(o)
            if o[0] in ("stop", "hang"):
                break
        out.append(ep)
        if ep and ep[-1][0] == "hang":
            break
    return out


def flat(epochs: List[List[Any]]) -> List[Any]:
    return [o for ep in epochs for o in ep]
