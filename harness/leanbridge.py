"""Lean side of every check: build, axiom audit, forbidden-token scan, model driver.

* build(): `lake build` of the whole library (no-op when nothing changed).
* audit(theorems, modules): `#print axioms` for each registered theorem; accepted axioms are
  {propext, Classical.choice, Quot.sound}.
* scan(): grep for sorry/admit/axiom/native_decide/... outside comments.
* Driver: runs the executable models over a JSON line protocol (`lake env lean --run Driver.lean`).
"""
from __future__ import annotations

import json
import os
import re
import subprocess
import tempfile
import time
from typing import Any, Dict, List, Optional, Tuple

from .core import VERIF

PROJECT = os.path.join(VERIF, "lean", "TorchDataVerif")
ACCEPTED_AXIOMS = {"propext", "Classical.choice", "Quot.sound"}
FORBIDDEN = re.compile(r"\b(sorry|admit|native_decide|bv_decide|implemented_by|unsafe)\b|^\s*axiom\s|maxHeartbeats\s+0\b")

_env = dict(os.environ)
_env.setdefault("LEAN_NUM_THREADS", "8")


def _run(cmd: List[str], inp: Optional[str] = None, timeout: int = 3600) -> Tuple[int, str]:
    p = subprocess.run(cmd, cwd=PROJECT, input=inp, capture_output=True, text=True, timeout=timeout, env=_env)
    return p.returncode, (p.stdout or "") + (p.stderr or "")


_build_cache: Dict[str, Tuple[bool, str]] = {}


def build(targets: Optional[List[str]] = None) -> Tuple[bool, str]:
    key = ",".join(targets or ["<all>"])
    if key in _build_cache:
        return _build_cache[key]
    cmd = ["lake", "build"] + (targets or [])
    rc, out = _run(cmd)
    _build_cache[key] = (rc == 0, out[-4000:])
    return _build_cache[key]


def strip_comments(src: str) -> str:
    # remove block comments (nested) and line comments
    out = []
    i, depth, n = 0, 0, len(src)
    while i < n:
        if src.startswith("/-", i):
            depth += 1
            i += 2
        elif depth and src.startswith("-/", i):
            depth -= 1
            i += 2
        elif depth:
            if src[i] == "\n":
                out.append("\n")
            i += 1
        elif src.startswith("--", i):
            while i < n and src[i] != "\n":
                i += 1
        else:
            out.append(src[i])
            i += 1
    return "".join(out)


def registered_files() -> List[str]:
    """Lean sources that are part of the library (imported by the root TorchDataVerif.lean) plus the driver entry
    files.  Files on disk that are not registered (work in progress) are neither built nor audited."""
    files = [os.path.join(PROJECT, "TorchDataVerif.lean")]
    try:
        for line in open(files[0]):
            m = re.match(r"\s*import\s+(TorchDataVerif[\w.]*)", line)
            if m:
                files.append(os.path.join(PROJECT, m.group(1).replace(".", "/") + ".lean"))
    except OSError:
        pass
    main = os.path.join(PROJECT, "Main")
    if os.path.isdir(main):
        files += [os.path.join(main, f) for f in sorted(os.listdir(main)) if f.endswith(".lean")]
    return files


def scan() -> List[str]:
    """Forbidden tokens outside comments in every registered .lean file of the project."""
    hits = []
    for path in registered_files():
        try:
            src = strip_comments(open(path).read())
        except OSError:
            hits.append(f"{os.path.relpath(path, PROJECT)}: registered module is missing")
            continue
        for ln, line in enumerate(src.split("\n"), 1):
            if FORBIDDEN.search(line):
                hits.append(f"{os.path.relpath(path, PROJECT)}:{ln}: {line.strip()[:120]}")
    return hits


def audit(theorems: List[str], modules: List[str]) -> Dict[str, Any]:
    """Returns {theorem: {"ok": bool, "axioms": [...], "msg": str}}."""
    res: Dict[str, Any] = {}
    if not theorems:
        return res
    src = "".join(f"import {m}\n" for m in modules)
    src += "".join(f"#print axioms {t}\n" for t in theorems)
    fd, path = tempfile.mkstemp(suffix=".lean", prefix="audit_", dir=PROJECT)
    try:
        with os.fdopen(fd, "w") as f:
            f.write(src)
        rc, out = _run(["lake", "env", "lean", path])
    finally:
        try:
            os.unlink(path)
        except OSError:
            pass
    # parse
    for t in theorems:
        res[t] = {"ok": False, "axioms": None, "msg": "no output"}
    # messages look like: "'TDV.foo' depends on axioms: [propext, Quot.sound]" possibly over several lines,
    # or "'TDV.foo' does not depend on any axioms"
    flat = re.sub(r"\s+", " ", out)
    for t in theorems:
        m = re.search(r"'" + re.escape(t) + r"' depends on axioms: \[([^\]]*)\]", flat)
        if m:
            axs = [a.strip() for a in m.group(1).split(",") if a.strip()]
            bad = [a for a in axs if a not in ACCEPTED_AXIOMS]
            res[t] = {"ok": not bad, "axioms": axs, "msg": "" if not bad else f"unaccepted axioms {bad}"}
            continue
        if re.search(r"'" + re.escape(t) + r"' does not depend on any axioms", flat):
            res[t] = {"ok": True, "axioms": [], "msg": ""}
            continue
        res[t]["msg"] = "theorem missing or does not elaborate: " + out[-600:]
    return res


def leanchecker(modules: List[str]) -> Tuple[bool, str]:
    rc, out = _run(["lake", "env", "leanchecker"] + modules, timeout=3600)
    return rc == 0, out[-2000:]


class Driver:
    """Batch interface to the executable models.  Each request is a JSON object with key "m"
    naming the model handler; the driver answers one JSON value per line."""

    def __init__(self):
        self.t = 0.0

    def run(self, requests: List[Dict[str, Any]]) -> List[Any]:
        """Requests are grouped by model name `m`; each model has its own entry file Main/<m>.lean
        (`lake env lean --run`).  Answers come back in request order."""
        if not requests:
            return []
        t0 = time.time()
        res: List[Any] = [None] * len(requests)
        by_model: Dict[str, List[int]] = {}
        for i, r in enumerate(requests):
            by_model.setdefault(r["m"], []).append(i)
        for m, idxs in by_model.items():
            inp = "\n".join(json.dumps(requests[i], separators=(",", ":")) for i in idxs) + "\n"
            rc, out = _run(["lake", "env", "lean", "--run", f"Main/{m}.lean"], inp=inp)
            lines = [l for l in out.split("\n") if l.strip()]
            if rc != 0 or len(lines) != len(idxs):
                raise RuntimeError(f"model driver {m} failed rc={rc} got {len(lines)} answers for {len(idxs)} requests: {out[-1500:]}")
            for i, l in zip(idxs, lines):
                try:
                    res[i] = json.loads(l)
                except Exception:
                    res[i] = {"error": "unparsable driver answer: " + l[:200]}
        self.t += time.time() - t0
        return res
