"""Entry point of every check:  /venv/bin/python -m harness.check C07 [--tier quick|thorough] [--replay FILE]

exit 0  property held on everything explored (KNOWN-FINDING lines may be printed)
exit 1  + "VIOLATION property=<id> replay=<path>[ no-failing-input-found]"
exit 2  internal error / timeout of the machinery (never a verdict)
"""
from __future__ import annotations

import argparse
import importlib
import json
import os
import sys
import time
import traceback

from . import core, leanbridge
from .core import Ctx, load_known, write_evidence, write_replay

TRUSTED_BASE = [
    "Lean 4.33.0 kernel; axioms accepted: propext, Classical.choice, Quot.sound (audited per theorem with #print axioms on every run)",
    "the statements of the registered theorems (lean/TorchDataVerif/TorchDataVerif/Props/*.lean)",
    "hand-written Lean models tied to /repo by the correspondence legs of this run (differential / trace validation; testing, bounded by generator quality)",
    "harness: virtual scheduler and virtual multiprocessing context (harness/vsched.py), canonicalisation of observations",
    "torch RNG, user datasets/samplers/map functions, CPython queue/threading/multiprocessing: parameters of the theorems with stated laws, not verified",
]


def main(argv=None) -> int:
    ap = argparse.ArgumentParser()
    ap.add_argument("prop")
    ap.add_argument("--tier", default=os.environ.get("VERIF_TIER", "quick"))
    ap.add_argument("--replay", default=None)
    args = ap.parse_args(argv)
    tier = args.tier if args.tier in ("quick", "thorough") else "quick"
    try:
        seed = int(os.environ.get("VERIF_SEED", "0"))
    except ValueError:
        seed = 0
    prop = args.prop.upper()
    os.chdir(core.VERIF)
    sys.path.insert(0, core.REPO)  # the working tree is what runs
    try:
        mod = importlib.import_module(f"harness.props.{prop.lower()}")
    except ModuleNotFoundError as e:
        print(f"no check for {prop}: {e}")
        return 2
    ctx = Ctx(prop, tier, seed)
    changed = core.anchors_changed(prop)
    if changed:
        # never a verdict by itself: a changed source only buys a deeper search (DESIGN.md 4.3)
        ctx.escalated = True
        ctx.note("anchored sources differ from the validated baseline, search budget escalated: " + ", ".join(changed))

    if args.replay:
        payload = json.load(open(args.replay))
        try:
            ok, msg = mod.replay(ctx, payload)
        except Exception:
            traceback.print_exc()
            return 2
        print(("REPLAY-PASS " if ok else "REPLAY-FAIL ") + msg)
        if not ok:
            print(f"VIOLATION property={prop} replay={args.replay}")
        return 0 if ok else 1

    # ---- 1. proof leg -----------------------------------------------------------------------
    theorems = list(getattr(mod, "THEOREMS", []))
    modules = list(getattr(mod, "LEAN_MODULES", []))
    build_ok, build_log = leanbridge.build()
    scan_hits = leanbridge.scan()
    aud = leanbridge.audit(theorems, modules) if build_ok else {t: {"ok": False, "axioms": None, "msg": "build failed"} for t in theorems}
    discharged = [t for t in theorems if aud.get(t, {}).get("ok")]
    proof_ok = build_ok and not scan_hits and len(discharged) == len(theorems) and len(theorems) > 0
    proof_problems = []
    if not build_ok:
        proof_problems.append("lake build failed: " + build_log[-1500:])
    for h in scan_hits:
        proof_problems.append("forbidden token: " + h)
    for t in theorems:
        if not aud.get(t, {}).get("ok"):
            proof_problems.append(f"theorem {t}: {aud.get(t, {}).get('msg')}")
    if tier == "thorough" and build_ok and modules and os.environ.get("VERIF_SKIP_LEANCHECKER") != "1":
        ok, out = leanbridge.leanchecker(modules)
        if not ok:
            proof_ok = False
            proof_problems.append("leanchecker: " + out[-800:])
        else:
            ctx.note("leanchecker re-checked: " + " ".join(modules))

    # ---- 2./3. correspondence legs and oracle -------------------------------------------------
    internal_error = None
    uncaught = False
    try:
        # corpus first: minimised past failures / `fixed:` witnesses are replayed on the real code
        import glob
        for fn in sorted(glob.glob(os.path.join(core.CORPUS_DIR, prop, "*.json"))):
            payload = json.load(open(fn))
            ok, msg = mod.replay(ctx, payload)
            ctx.case("corpus", os.path.basename(fn), True)
            if not ok:
                ctx.fail(payload.get("kind", "corpus"), payload.get("input", {}), f"corpus witness {os.path.basename(fn)} fails: {msg}")
        mod.run(ctx)
    except Exception as e:
        if core.raised_in_code_under_test(e):
            ctx.diverge("uncaught_exception", {}, "the code under test raised where the harness expects no exception: " + traceback.format_exc()[-1200:])
            uncaught = True
        else:
            internal_error = traceback.format_exc()
    corr_ok = not ctx.divergences
    if internal_error is None and not uncaught and (not proof_ok or not corr_ok) and not ctx.failures and hasattr(mod, "escalate"):
        ctx.escalated = True
        try:
            mod.escalate(ctx)
        except Exception as e:
            if core.raised_in_code_under_test(e):
                ctx.diverge("uncaught_exception", {}, "the code under test raised where the harness expects no exception: " + traceback.format_exc()[-1200:])
            else:
                internal_error = traceback.format_exc()

    # ---- 4. classify failing inputs -------------------------------------------------------------
    known = [k for k in load_known() if k.prop == prop]
    classifiers = getattr(mod, "KNOWN", {})
    known_hits, violations = [], []
    for f in ctx.failures:
        hit = None
        for k in known:
            if k.status != "finding":
                continue
            clf = classifiers.get(k.fid)
            try:
                if clf is not None and clf(f):
                    hit = k
                    break
            except Exception:
                pass
        if hit is not None:
            if hit.fid not in known_hits:
                known_hits.append(hit.fid)
                print(f"KNOWN-FINDING: property={prop} id={hit.fid} {f.what[:300]}")
        else:
            violations.append(f)

    lines = []
    for f in violations[:5]:
        path = write_replay(prop, {"property": prop, "seed": seed, "tier": tier, **f.to_json(),
                                   "how": f"/venv/bin/python -m harness.check {prop} --replay <this file>"})
        lines.append(f"VIOLATION property={prop} replay={path}")
        print(f"  failing input ({f.kind}): {f.what[:500]}")
    # ---- 5. broken proof / correspondence without a failing input -------------------------------
    if not violations and (not proof_ok or not corr_ok) and internal_error is None:
        payload = {
            "property": prop, "seed": seed, "tier": tier, "kind": "no-failing-input-found",
            "proof_problems": proof_problems,
            "correspondence_divergences": [d.to_json() for d in ctx.divergences[:5]],
            "note": "a theorem or a correspondence leg no longer checks; the failing-input search on the real code found nothing",
        }
        path = write_replay(prop, payload)
        for p in proof_problems[:5]:
            print("  proof leg: " + p[:400])
        for d in ctx.divergences[:3]:
            print(f"  correspondence leg {d.leg}: {d.detail[:400]}")
        lines.append(f"VIOLATION property={prop} replay={path} no-failing-input-found")

    # ---- 7. evidence ---------------------------------------------------------------------------
    extra = {
        "rule": getattr(mod, "RULE", ""),
        "explanation": getattr(mod, "EXPLANATION", ""),
        "assumptions": getattr(mod, "ASSUMPTIONS", []),
    }
    proof = {
        "obligations": len(theorems),
        "discharged": len(discharged),
        "theorems": [{"name": t, "axioms": aud.get(t, {}).get("axioms"), "ok": aud.get(t, {}).get("ok", False)} for t in theorems],
        "checker_cmd": "cd lean/TorchDataVerif && lake build && lake env lean <audit file with `#print axioms` per theorem>"
        + (" && lake env leanchecker " + " ".join(modules) if tier == "thorough" else ""),
        "trusted_base": TRUSTED_BASE + list(getattr(mod, "TRUSTED_EXTRA", [])),
    }
    if ctx.divergences:
        ctx.note(f"{len(ctx.divergences)} correspondence divergences")
    write_evidence(ctx, proof, len(lines), known_hits, extra)

    if internal_error is None and ctx.hist.get("internal_errors"):
        # errors of the machinery inside individual cases (forked workers) must not pass silently as reduced coverage
        internal_error = (f"{ctx.hist['internal_errors']} case(s) ended in an internal error of the harness:\n"
                          + "\n".join(n for n in ctx.notes if n.startswith("internal error in case"))[:3000])
    if internal_error is not None:
        print("INTERNAL ERROR in check machinery (not a verdict):")
        print(internal_error)
        return 2
    for l in lines:
        print(l)
    print(f"{prop} {tier} seed={seed}: theorems {len(discharged)}/{len(theorems)} cases={ctx.evaluations} "
          f"nontrivial={len(ctx.nontrivial)} divergences={len(ctx.divergences)} failures={len(ctx.failures)} "
          f"known={known_hits} wall={time.time() - ctx.t0:.1f}s")
    return 1 if lines else 0


if __name__ == "__main__":
    sys.exit(main())
