#!/usr/bin/env python3
"""Regression over the seeded changes: applies each seeded/<id>/patch.diff to a fresh scratch worktree of /repo's HEAD
and runs the first check listed in meta.json["detected_by"] against it (VERIF_REPO).  Prints one line per change:
DETECTED (a VIOLATION line was printed, exit 1) / MISSED / NOAPPLY.  Usage: tools/check_seeded.py [-j N] [ids...]"""
import concurrent.futures
import json
import os
import subprocess
import sys

HERE = os.path.dirname(os.path.dirname(os.path.abspath(__file__)))


def one(mid):
    d = os.path.join(HERE, "seeded", mid)
    meta = json.load(open(os.path.join(d, "meta.json")))
    wt = f"/tmp/seedchk.{mid}"
    subprocess.run(["git", "-C", "/repo", "worktree", "remove", "--force", wt], capture_output=True)
    r = subprocess.run(["git", "-C", "/repo", "worktree", "add", "-q", "--detach", wt, "HEAD"], capture_output=True, text=True)
    if r.returncode != 0:
        return mid, "NOWORKTREE", r.stderr[-200:]
    try:
        r = subprocess.run(["git", "apply", os.path.join(d, "patch.diff")], cwd=wt, capture_output=True, text=True)
        if r.returncode != 0:
            return mid, "NOAPPLY", r.stderr.strip()[-200:]
        results = []
        for chk in meta["detected_by"]:
            env = dict(os.environ, VERIF_REPO=wt, VERIF_NPROC=os.environ.get("SEEDCHK_NPROC", "4"))
            p = subprocess.run(["/venv/bin/python", "-m", "harness.check", chk], cwd=HERE, env=env, capture_output=True, text=True, timeout=3600)
            viol = [l for l in p.stdout.split("\n") if l.startswith("VIOLATION")]
            concrete = [l for l in viol if "no-failing-input-found" not in l]
            results.append((chk, p.returncode, len(viol), len(concrete)))
            if p.returncode == 1 and viol:
                return mid, "DETECTED", f"{chk}: {len(concrete)} concrete, {len(viol) - len(concrete)} via broken proof/correspondence"
        return mid, "MISSED", str(results)
    finally:
        subprocess.run(["git", "-C", "/repo", "worktree", "remove", "--force", wt], capture_output=True)


def main():
    args = sys.argv[1:]
    j = 3
    if args[:1] == ["-j"]:
        j = int(args[1])
        args = args[2:]
    ids = args or sorted(os.listdir(os.path.join(HERE, "seeded")))
    with concurrent.futures.ThreadPoolExecutor(j) as ex:
        for mid, status, info in ex.map(one, ids):
            print(f"{mid:8s} {status:10s} {info}", flush=True)


if __name__ == "__main__":
    main()
