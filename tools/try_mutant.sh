#!/bin/bash
# usage: tools/try_mutant.sh <worktree> <diff> <prop> [<prop>...]   -- runs checks against a scratch worktree with the diff applied
wt=$1; diff=$2; shift 2
cd $wt && git checkout -q -- . && git apply $diff || exit 3
cd /verif
for p in "$@"; do
  VERIF_REPO=$wt timeout 900 /venv/bin/python -m harness.check $p 2>&1 | grep -v "WARNING\|proof leg\|no-failing-input-found" | grep "VIOLATION\|KNOWN\|failing input\|quick seed\|correspondence leg\|INTERNAL" | cut -c1-330 | head -8
done
cd $wt && git checkout -q -- .
