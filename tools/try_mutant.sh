#!/bin/bash
# usage: tools/try_mutant.sh <dir containing the diff> <diff file name> <prop> [<prop>...]
# applies the diff to a FRESH scratch worktree of /repo's current HEAD and runs the checks against it (VERIF_REPO)
src=$1; diff=$2; shift 2
wt=/tmp/muttry.$$
git -C /repo worktree add -q --detach $wt HEAD || exit 3
( cd $wt && git apply $src/$diff ) || { echo "patch does not apply"; git -C /repo worktree remove --force $wt; exit 3; }
cd /verif
for p in "$@"; do
  VERIF_REPO=$wt timeout 1800 /venv/bin/python -m harness.check $p 2>&1 | grep -v "WARNING\|proof leg" | grep "VIOLATION\|KNOWN\|failing input\|quick seed\|correspondence leg\|INTERNAL" | cut -c1-330 | head -8
done
git -C /repo worktree remove --force $wt
