#!/usr/bin/env python3
"""Writes /verif/seeded/<id>/meta.json from the seeding agent's meta, my confirmation runs and the detection table."""
import json
import os
import sys

HERE = os.path.dirname(os.path.dirname(os.path.abspath(__file__)))
# id -> (property, checks that report a VIOLATION with the patch applied, note)
DETECT = {
    "C01-A": ("C01", ["C01"], "needed a new dataset kind (stateful dataset whose __iter__ builds its iterator eagerly); added to harness/sdl.py"),
    "C01-B": ("C01", ["C01"], ""),
    "C02-A": ("C02", ["C02"], "chain oracle (second checkpoint before the re-fetched batch is used up)"),
    "C02-B": ("C02", ["C06", "C02"], "caught by C06 (K-T rejects the reordered put/append; state-position oracle); C02 catches it once its threaded cases run under the virtual scheduler"),
    "C07-A": ("C07", ["C07"], "pickle transport between the two sides makes the tombstone a different instance"),
    "C07-B": ("C07", ["C07"], "needed a resume phase in the loader integration leg and a dataset whose load_state_dict mutates the dict it is handed"),
    "C13-A": ("C13", ["C13"], "escaped at first: tokens were opaque; every state token is now observed by its denotation (load into a fresh loader) on both sides"),
    "C13-B": ("C13", ["C13"], ""),
    "C14-A": ("C14", ["C14", "C08"], "second load of the same dict object"),
    "C14-B": ("C14", ["C14"], "reported through the broken correspondence (state content differs from the model after > 1000 draws); no-failing-input-found unless the two-stage resume is sampled"),
}


def main():
    for mid, (prop, checks, note) in DETECT.items():
        d = os.path.join(HERE, "seeded", mid)
        if not os.path.isdir(d):
            continue
        agent = {}
        try:
            agent = json.load(open(os.path.join(d, "meta_agent.json")))
        except Exception:
            pass

        def rd(fn):
            try:
                return open(os.path.join(d, fn)).read().strip()[-300:]
            except Exception:
                return None

        meta = {
            "id": mid,
            "property": prop,
            "summary": agent.get("summary"),
            "needs_to_manifest": agent.get("needs"),
            "seeded_by": "independent sub-agent given only the property text and a scratch worktree",
            "confirmed": {
                "demo_with_patch": rd("demo_with_patch.txt"),
                "demo_unchanged": rd("demo_unchanged.txt"),
                "full_suite_with_patch": rd("suite.txt"),
                "how": "tools/keep_mutant.sh: scratch worktree of /repo HEAD + patch; demo on both trees; baseline suite (-k 'not test_get_worker_info')",
            },
            "detected_by": checks,
            "how_run": "tools/try_mutant.sh <worktree> patch.diff <checks>  (VERIF_REPO=<worktree with patch> /venv/bin/python -m harness.check <id>)",
            "note": note,
        }
        json.dump(meta, open(os.path.join(d, "meta.json"), "w"), indent=1)
        print(mid, meta["confirmed"]["full_suite_with_patch"])


if __name__ == "__main__":
    main()
