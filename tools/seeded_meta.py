#!/usr/bin/env python3
"""Writes /verif/seeded/<id>/meta.json from the seeding agent's meta, my confirmation runs and the detection table."""
import json
import os
import sys

HERE = os.path.dirname(os.path.dirname(os.path.abspath(__file__)))
# id -> (property, checks that report a VIOLATION with the patch applied, note)
DETECT = {
    "C01-A": ("C01", ["C01"], "needed a new dataset kind (stateful dataset whose __iter__ builds its iterator eagerly); added to harness/sdl.py"),
    "C01-B": ("C01", ["C01"], ""),
    "C02-A": ("C02", ["C02"], "chain oracle (second checkpoint before the re-fetched batch is used up)"),
    "C02-B": ("C02", ["C06", "C02"], "caught by C06 (K-T rejects the reordered put/append; state-position oracle); C02 catches it once its threaded cases run under the virtual scheduler"),
    "C07-A": ("C07", ["C07"], "pickle transport between the two sides makes the tombstone a different instance"),
    "C07-B": ("C07", ["C07"], "needed a resume phase in the loader integration leg and a dataset whose load_state_dict mutates the dict it is handed"),
    "C13-A": ("C13", ["C13"], "escaped at first: tokens were opaque; every state token is now observed by its denotation (load into a fresh loader) on both sides"),
    "C13-B": ("C13", ["C13"], ""),
    "C14-A": ("C14", ["C14", "C08"], "second load of the same dict object"),
    "C14-B": ("C14", ["C14"], "reported through the broken correspondence (state content differs from the model after > 1000 draws); no-failing-input-found unless the two-stage resume is sampled"),
    "C03-A": ("C03", ["C03"], "in_order=False multiset leg over two epochs with persistent workers"),
    "C03-B": ("C03", ["C03", "C09"], "C09 reports it through the broken K-T correspondence"),
    "C04-A": ("C04", ["C04", "C12"], "at first only a K-T divergence; pm_trace's lifecycle oracle now compares every post-reset epoch with the reference and attributes source calls to reader generations"),
    "C04-B": ("C04", ["C04"], "None-valued items in the generated pipelines"),
    "C05-A": ("C05", ["C05", "C07"], "delayed-flush schedule policy / delayed serialisation in the K-D leg"),
    "C06-A": ("C06", ["C06", "C02"], "same idea as C02-B, found independently"),
    "C06-B": ("C06", ["C02", "C06"], "chain oracle: second checkpoint after a resume"),
    "C08-A": ("C08", ["C08", "C14"], ""),
    "C08-B": ("C08", ["C08", "C13"], "escaped C08 at first (states were only loaded into fresh objects); a load; iter(); load; iterate leg on the SAME object was added"),
    "C09-A": ("C09", ["C09"], "kill during the start-up handshake"),
    "C09-B": ("C09", ["C09"], "at first only via the broken K-T correspondence of the MP model; the oracle now also kills persistent workers between / in later epochs and reports the hang concretely"),
    "C10-A": ("C10", ["C10"], "needed datasets whose state_dict() raises (added)"),
    "C10-B": ("C10", ["C10"], "needed a start-up failure after load_state_dict (added)"),
    "C11-A": ("C11", ["C11"], ""),
    "C11-B": ("C11", ["C11"], "needed sources whose state_dict() raises where a snapshot is due (added to the PF / PM oracles)"),
    "C12-A": ("C12", ["C12", "C04"], "same change as C04-A; was masked by the known-finding classifier until that was narrowed to slow sources (delay > join timeout)"),
    "C15-A": ("C15", ["C15"], ""),
    "C15-B": ("C15", ["C15"], ""),
    "C16-A": ("C16", ["C16"], ""),
    "C16-B": ("C16", ["C16"], ""),
    "C17-A": ("C17", ["C17"], "at first only a K-T divergence; pm_trace now has error -> reset/del/exhaust histories with method=process and reports leaked worker processes"),
    "C17-B": ("C17", ["C17"], ""),
    # second round (the seeding agents were told which ideas had been used already)
    "C01-C": ("C01", ["C15", "C01"], "batch sampler under-counts a short final batch: caught by the sampler check and by the loader resume oracle"),
    "C01-D": ("C01", ["C01"], "chain oracle: second checkpoint inside the same snapshot interval after a resume"),
    "C02-C": ("C02", ["C13", "C02"], "None item right after a checkpoint (Loader look-ahead)"),
    "C03-C": ("C03", ["C13", "C03"], "state_dict() before the first iter(), abandon, iterate again"),
    "C03-D": ("C03", ["C03"], "escaped at first: needed an EMPTY user sampler over a non-empty dataset (sampler_len added to the generator)"),
    "C05-C": ("C05", ["C01", "C05"], "end-of-shard notice overtaking its own buffered batches"),
    "C06-C": ("C06", ["C02", "C06"], "Prefetcher double counts replayed steps: chain oracle"),
    "C06-D": ("C06", ["C12", "C06"], "Prefetcher._shutdown no longer joins the reader; was masked by a too broad known-finding classifier (now limited to sources slower than the joins / adversarial timeouts)"),
    "C07-C": ("C07", ["C01", "C07"], "persistent worker keeps its diff base across epochs (variant of C01-B)"),
    "C07-D": ("C07", ["C07"], "escaped at first: shallow per-leaf copy - needed list leaves holding mutable elements that are advanced in place (added)"),
    "C09-C": ("C09", ["C09"], "dead worker skipped at dispatch"),
    "C09-D": ("C09", ["C09"], "any([0]) is falsy: death of worker 0 only"),
    "C10-C": ("C10", ["C10"], "only the last start-up acknowledgement's error surfaces"),
    "C10-D": ("C10", ["C10"], "escaped at first: needed state_dict() before the first iteration with a failing worker_init_fn (added)"),
    "C12-C": ("C12", ["C12"], "reader checks stop only after an acquire timeout"),
    "C12-D": ("C12", ["C12"], "at first only via the broken K-T correspondence; lifecycle cases now kill a process worker while the reader is inside a moderately slow source and reset() right after the error (source reset() counts as being inside the source)"),
    "C13-C": ("C13", ["C13"], "SamplerWrapper keeps a stale _started after a load"),
    "C04-C": ("C04", ["C04"], "escaped the oracle at first (K-T divergence only): map functions slower than the consumer's poll timeout were added, the multiset oracle then reports the dropped in-flight items"),
    "C04-D": ("C04", ["C02", "C04"], ""),
    "C08-C": ("C08", ["C08", "C13"], "escaped C08 at first: the state of a FINISHED iterator is now captured and checked too"),
    "C08-D": ("C08", ["C08"], "escaped at first: needed a map-style dataset whose items come from the worker's RNG (added: map_rng)"),
    "C11-C": ("C11", ["C11"], ""),
    "C11-D": ("C11", ["C11"], ""),
    "C14-C": ("C14", ["C14"], ""),
    "C14-D": ("C14", ["C14"], ""),
    "C15-C": ("C15", ["C15"], ""),
    "C15-D": ("C15", ["C15"], ""),
    "C16-C": ("C16", ["C16"], "escaped at first: a second load_state_dict after a rejected one is now attempted (retry must be rejected as well)"),
    "C16-D": ("C16", ["C16"], "escaped at first: state_dict() taken before the first iteration of an empty/short epoch"),
    "C17-C": ("C17", ["C17"], ""),
    "C17-D": ("C17", ["C17"], ""),
    # third round
    "C01-E": ("C01", ["C15", "C01"], "RandomSampler load jumps instead of replaying: needs replacement=True / num_samples > len (buffer refilled mid-epoch). C15 raised an INTERNAL ERROR at first (uncaught ZeroDivisionError from the changed code): uncaught exceptions from the code under test are now a broken correspondence, the C15 interpreters turn them into observations, and C01's loader oracle generates such samplers"),
    "C03-E": ("C03", ["C03", "C05"], "escaped at first: `timeout=` with a fetch slower than the timeout and a consumer that retries was not generated; added (virtual-time slow fetches)"),
    "C03-F": ("C03", ["C03"], "escaped at first: needed items drawn from numpy's global RNG in the workers (virtual processes now carry numpy's RNG state too; `map_rng` draws from torch, random and numpy)"),
    "C04-E": ("C04", ["C04"], ""),
    "C04-F": ("C04", ["C04"], "the changed code spins forever inside Filter.next (a real, non-virtual loop): the check itself hung at first; a per-case CPU/wall watchdog now reports such a case as a failing input"),
    "C05-F": ("C05", ["C03", "C09", "C05"], ""),
    "C07-E": ("C07", ["C07"], ""),
    "C07-F": ("C07", ["C05", "C07"], ""),
    "C08-E": ("C08", ["C08"], ""),
    "C08-G": ("C08", ["C08"], "round 4 (follow-up session): Unbatcher in-place cache refresh + shallow copy out + aliasing reset; caught by the main oracle and by the alias leg (inferred policy = third unsafe policy of TDV.Alias.unsafe_mutates)"),
    "C08-F": ("C08", ["C08"], "escaped at first: needed a dataset whose state is falsy ({}) before the first fetch, loaded into a loader that had already advanced (both added)"),
    "C10-E": ("C10", ["C10"], "at first only via the broken K-T correspondence: errors with in_order=False are now generated and compared as multisets per epoch"),
    "C10-F": ("C10", ["C10"], "as C10-E"),
    "C16-E": ("C16", ["C16"], "at first only K-D divergences (a concrete report seen earlier was a false alarm of the `{}` leg): the rejected checkpoint is now also loaded into a loader that is itself mid-epoch, and the leftover worker processes are reported (`C16:workers_left_behind`)"),
    "C16-F": ("C16", ["C16"], ""),
    "C02-E": ("C02", ["C02"], ""),
    "C06-E": ("C06", ["C06"], "escaped at first: `if snapshot:` -> `is not None` only matters for a source whose state_dict() is {} (replay-only source); such sources are now generated for the PM resume oracle"),
    "C09-E": ("C09", ["C09"], "escaped at first: needed a worker that ends ITSELF with exit status 0 (invisible to SIGCHLD); kill plans of the virtual scheduler now carry an exit status"),
    "C09-F": ("C09", ["C09"], ""),
    "C11-E": ("C11", ["C11"], ""),
    "C11-F": ("C11", ["C11"], "escaped at first: needed a map function that raises queue.Empty itself (added)"),
    "C12-F": ("C12", ["C12"], ""),
    "C13-E": ("C13", ["C13"], ""),
    "C13-F": ("C13", ["C13", "C08"], "same change as C08-E, found independently"),
    "C14-E": ("C14", ["C14"], "at first only a K-D divergence: reset(state); reset() without a request in between is now an oracle case (the restarted epoch is the loaded epoch's own sequence)"),
    "C14-F": ("C14", ["C14"], "checkpoint after exactly 1000 draws"),
    "C15-E": ("C15", ["C15"], "at first only a K-D divergence: foreign draws from the sampler's generator between iter() and the first index are now an oracle case (single-permutation epochs)"),
    "C15-F": ("C15", ["C15"], ""),
    "C17-E": ("C17", ["C17"], ""),
    "C17-F": ("C17", ["C17"], "escaped at first: needed a worker process that cannot be started (Process.start raising in the virtual context) while earlier ones are up (added)"),
    "C13-D": ("C13", ["C01"], "_sampler_iter_yielded not zeroed on _reset: caught by C01's resume oracle with persistent workers (second epoch), not by C13"),
}


def main():
    for mid, (prop, checks, note) in DETECT.items():
        d = os.path.join(HERE, "seeded", mid)
        if not os.path.isdir(d):
            continue
        agent = {}
        try:
            agent = json.load(open(os.path.join(d, "meta_agent.json")))
        except Exception:
            pass

        def rd(fn):
            try:
                return open(os.path.join(d, fn)).read().strip()[-300:]
            except Exception:
                return None

        meta = {
            "id": mid,
            "property": prop,
            "summary": agent.get("summary"),
            "needs_to_manifest": agent.get("needs"),
            "seeded_by": "independent sub-agent given only the property text and a scratch worktree",
            "confirmed": {
                "demo_with_patch": rd("demo_with_patch.txt"),
                "demo_unchanged": rd("demo_unchanged.txt"),
                "full_suite_with_patch": rd("suite.txt"),
                "how": "tools/keep_mutant.sh: scratch worktree of /repo HEAD + patch; demo on both trees; baseline suite (-k 'not test_get_worker_info')",
            },
            "detected_by": checks,
            "how_run": "tools/try_mutant.sh <worktree> patch.diff <checks>  (VERIF_REPO=<worktree with patch> /venv/bin/python -m harness.check <id>)",
            "note": note,
        }
        json.dump(meta, open(os.path.join(d, "meta.json"), "w"), indent=1)
        print(mid, meta["confirmed"]["full_suite_with_patch"])


if __name__ == "__main__":
    main()
