#!/bin/bash
# runs every registered check (quick tier unless $1 = thorough) and prints one summary line each
cd /verif
tier=${1:-quick}
for p in C01 C02 C03 C04 C05 C06 C07 C08 C09 C10 C11 C12 C13 C14 C15 C16 C17; do
  /usr/bin/time -f "$p wall %e s rc %x" timeout 3600 /venv/bin/python -m harness.check $p --tier $tier 2>&1 | grep -v WARNING | grep "VIOLATION\|$tier seed\|INTERNAL\|wall .* rc" | cut -c1-260
done
