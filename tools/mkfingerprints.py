#!/usr/bin/env python3
"""Records the AST fingerprints of the files each property is anchored in (fingerprints.json, committed).
A check whose anchored files differ from this baseline escalates its search budget; it never reports a
violation because of a changed fingerprint alone (DESIGN.md 4.3)."""
import json, os, sys
if os.path.realpath(sys.executable) != os.path.realpath("/venv/bin/python") and os.path.exists("/venv/bin/python"):
    os.execv("/venv/bin/python", ["/venv/bin/python"] + sys.argv)  # ast.dump differs between interpreter versions
sys.path.insert(0, os.path.dirname(os.path.dirname(os.path.abspath(__file__))))
from harness.core import fingerprint_files, VERIF, REPO
props = [json.loads(l) for l in open(os.path.join(VERIF, "properties.jsonl"))]
out = {}
for p in props:
    out[p["id"]] = fingerprint_files(p["anchors"]["files"])
json.dump(out, open(os.path.join(VERIF, "fingerprints.json"), "w"), indent=1, sort_keys=True)
print("fingerprints of", len(out), "properties written for", REPO)
