#!/bin/bash
# usage: tools/keep_mutant.sh <id e.g. C01-A> <worktree> <letter A|B>  -- copies patch/demo/meta into /verif/seeded/<id>/ and starts the full
# baseline suite on a private copy of the worktree with the patch applied (result -> seeded/<id>/suite.txt)
id=$1; wt=$2; L=$3
d=/verif/seeded/$id; mkdir -p $d
cp $wt/mut$L.diff $d/patch.diff; cp $wt/demo$L.py $d/demo.py; cp $wt/meta$L.json $d/meta_agent.json
scratch=/tmp/mutconfirm/$id; rm -rf $scratch; mkdir -p /tmp/mutconfirm
git -C /repo worktree add -q --detach $scratch HEAD && cd $scratch && git apply $d/patch.diff || exit 3
( cd $scratch && PYTHONPATH=$scratch /venv/bin/python $d/demo.py > $d/demo_with_patch.txt 2>&1; echo "exit=$?" >> $d/demo_with_patch.txt
  cd /repo && PYTHONPATH=/repo /venv/bin/python $d/demo.py > $d/demo_unchanged.txt 2>&1; echo "exit=$?" >> $d/demo_unchanged.txt
  cd $scratch && PYTHONPATH=$scratch /venv/bin/python -m pytest -q -p no:cacheprovider --timeout=900 --continue-on-collection-errors -x -k "not test_get_worker_info" > /tmp/mutconfirm/$id.suite.log 2>&1
  tail -1 /tmp/mutconfirm/$id.suite.log > $d/suite.txt
  cd /repo && git worktree remove --force $scratch ) > /dev/null 2>&1 &
