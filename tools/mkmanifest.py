#!/usr/bin/env python3
"""Regenerates /verif/MANIFEST.json from the table below (keeps it valid and consistent)."""
import json
import os

HERE = os.path.dirname(os.path.dirname(os.path.abspath(__file__)))
PY = "/venv/bin/python"

# property -> (claimed?, technique, level text, level note, design ref)
CHECKS = {
    "C07": dict(
        technique="Lean 4 proof (TDV.Incr.lossless, unflatten_flatten by induction over values and histories) + differential correspondence of the real _IncrementalState pair against the model",
        text="Theorems over all well-formed state values and all finite report histories: flatten/unflatten round trip, one-step and whole-history losslessness of delta transfer (tombstones, leaf<->dict changes). The model is tied to incremental_state.py on every run by a differential run over generated histories (incl. in-place mutation and delayed serialisation), and the property is evaluated directly on the real classes and on StatefulDataLoader checkpoints.",
        note="Trusted: Lean kernel + {propext, Classical.choice, Quot.sound}; leaf equality as Python ==; pickle round trip stands for the queue transport; correspondence is testing (generator-bounded). Integration through the loader uses virtual worker processes (harness/vsched.py).",
        ref="DESIGN.md §7 C07",
    ),
}

NOT_YET = "check not built yet (work in progress; see DESIGN.md section 7)"


def main():
    props = [json.loads(l)["id"] for l in open(os.path.join(HERE, "properties.jsonl"))]
    checks, na = [], []
    for p in props:
        c = CHECKS.get(p)
        if c is None:
            na.append({"property_id": p, "reason": NOT_YET})
            continue
        checks.append({
            "property_id": p,
            "quick_cmd": f"{PY} -m harness.check {p} --tier quick",
            "thorough_cmd": f"{PY} -m harness.check {p} --tier thorough",
            "evidence_file": f"evidence/{p}.json",
            "replay_cmd_template": f"{PY} -m harness.check {p} --replay {{path}}",
            "engine": "lean4-models+correspondence",
            "level_claimed": {"category": "proof", "text": c["text"], "design_ref": c["ref"]},
            "level_note": c["note"],
            "technique": c["technique"],
        })
    src_commits = []
    try:
        import subprocess
        out = subprocess.run(["git", "-C", "/repo", "log", "--format=%h %s", "4b7d09e..HEAD"], capture_output=True, text=True).stdout
        src_commits = [l.split()[0] for l in out.strip().split("\n") if l.strip()]
    except Exception:
        pass
    m = {
        "version": 1,
        "setup_cmd": "cd lean/TorchDataVerif && lake build",
        "hooks": {
            "guard": "TORCHDATA_VERIF",
            "enable": "no hooks: nothing in /repo is guarded; the harness imports torchdata from /repo's working tree and substitutes virtual threading/queue/time/multiprocessing objects from outside (harness/vsched.py)",
            "baseline_off_cmd": "cd /repo && /venv/bin/python -m pytest -ra -q -p no:cacheprovider --timeout=900 --continue-on-collection-errors",
            "source_commits": src_commits,
            "add_only": True,
        },
        "engines": [{
            "name": "lean4-models+correspondence",
            "path": "lean/TorchDataVerif (models, proofs, property theorems), harness/ (correspondence legs, property oracles, virtual scheduler)",
            "serves_properties": [c["property_id"] for c in checks],
            "kind_free_text": "Lean 4 theorems over executable models; differential / trace-validation correspondence against the real code on every run; property oracle on the real code for failing-input search",
        }],
        "checks": checks,
        "notes": "source_commits are unguarded `fix:` repairs of genuine defects (see known_findings.txt and DESIGN.md §8); there are no hook commits.",
        "not_applicable": na,
    }
    with open(os.path.join(HERE, "MANIFEST.json"), "w") as f:
        json.dump(m, f, indent=1)
    print(f"{len(checks)} checks, {len(na)} not claimed")


if __name__ == "__main__":
    main()
