#!/usr/bin/env python3
"""Regenerates /verif/MANIFEST.json from the table below (keeps it valid and consistent)."""
import json
import os

HERE = os.path.dirname(os.path.dirname(os.path.abspath(__file__)))
PY = "/venv/bin/python"

# property -> (claimed?, technique, level text, level note, design ref)
CHECKS = {
    "C01": dict(
        technique="Lean 4 proof: resume exactness of the single-process iterator for every sampler/dataset kind, every k, chains and following epochs (TDV.SP.resume_*), and schedule independence / snapshot bookkeeping of the multi-process protocol (TDV.MP.*); differential (SP) and trace-validation (MP) correspondence; every-position resume oracle on the real loader",
        text="TDV.SP.resume_exact_map/_iter/_ffwd, resume_chain_*, resume_epochs*, sampler and dataset laws (README dataset included as an instance), with the shared-generator exception refuted and excluded explicitly (known finding). TDV.MP.deterministic, snapshot_fields_map, take_snapshot_assertion_holds_map for every action sequence of the worker/main protocol. The MP constructor path is a theorem for map-style AND iterable datasets (uneven/empty shards, workers retired inside the snapshot) at every snapshot interval, W and prefetch factor: TDV.MPR.snapshot_sound_map/_iter (a checkpoint after n yields is exactly the ideal state at its snapshot step - the dispatch-time windows of _try_put_index are proved sufficient), restore_ideal_map/_iter, resume_exact_map/_iter, chain_map/_iter for all pairs of schedules (saving run, resumed run). TDV.E2E.* composes the facade with the real iterator models: sdl_sp_resume_exact / sdl_sp_chain / sdl_mp_map_resume_exact state C01 at the public API (state_dict -> fresh loader -> load_state_dict -> remaining batches and all following epochs, chains by induction). The oracle resumes at every interruption position of two epochs for generated configurations (all dataset kinds incl. the README dataset, uneven/empty shards, every snapshot interval, persistent workers, virtual worker processes under adversarial schedules) and on chains of resumes.",
        note="Partial: the fast-forward restore branch of the multi-process iterator (datasets without any state) and persistent-worker resume are covered by the SP theorems, the correspondence legs and the oracle, not by an MP theorem; failing fetches are excluded from the MP restore theorems (NoErr). Trusted: Lean kernel + standard axioms; datasets/samplers as parameters with stated laws; torch RNG abstract; virtual processes stand for OS processes.",
        ref="DESIGN.md §7 C01",
    ),
    "C03": dict(
        technique="Lean 4 proof: SP stream = reference chunking for all epochs; MP yields are a prefix of the round-robin reference in every reachable state and complete at stop (invariants I1-I4 by induction over action sequences) + correspondence + equality with torch.utils.data.DataLoader on the real code",
        text="TDV.SP.stream_eq_ref_*; TDV.MP.yields_prefix_ref(_map/_iter), epoch_complete(_map/_iter), progress_map/variant_map: for every W, prefetch factor, shard layout (empty/uneven) and every schedule the batches yielded are exactly Ref.interleave / Ref.chunk, each once. Tie: SP K-D, MP K-T (real _worker_loop under the virtual scheduler). Oracle: StatefulDataLoader vs torch DataLoader batch-for-batch over generated configurations and schedule policies; shuffle exactly-once; in_order=False multisets.",
        note="Trusted: Lean kernel + standard axioms; torch's DataLoader is the reference implementation for `DataLoader order`. in_order=False (TDV.MPU.unordered_safe / unordered_complete: the yields are a permutation of the reference at stop, no stranding by the capacity rule) and persistent-worker epochs (TDV.MPU.reset_fresh, multi_epoch_*) are theorems too.",
        ref="DESIGN.md §7 C03",
    ),
    "C05": dict(
        technique="Lean 4 proof: determinism of the multi-process protocol over all action sequences (yields and snapshot fields are functions of the number of yields only) + trace validation of the real iterator under permuted worker schedules",
        text="TDV.MP.deterministic(_map/_iter), snapshot_fields_map, yields_prefix_ref: two runs of the same configuration under any two schedules yield the same batches; the (snapshot_step, steps_since_snapshot, last_yielded_worker_id) returned after the n-th yield depend on n only. Tie: K-T. Oracle: the same configuration under 4 schedule policies incl. starved workers, adversarial timeouts and delayed queue serialisation: identical yields, identical state_dict content at every position, identical continuation.",
        note="Trusted: Lean kernel + standard axioms; worker state content (delta_at_yield for iterable datasets) is covered by the oracle's state-content comparison and C07, not yet by an MP theorem.",
        ref="DESIGN.md §7 C05",
    ),
    "C06": dict(
        technique="Lean 4 proof: invariant of the Prefetcher / ParallelMapper thread protocols over every interleaving (snapshot store versions, steps counter) giving a closed form of the checkpoint in the number of delivered items + trace validation of the real threads",
        text="TDV.PF.state_tracks_consumer / state_closed_form_everywhere (and PM counterpart): in every reachable state with the consumer outside next(), (snapshot, steps_since_snapshot) = (source state after f*floor(m/f), m - that) for m delivered items - never the reader's position. Tie: traces of the real reader/consumer threads under random and adversarial-timeout schedules are replayed through the model (K-T). Oracle: state_dict at every consumer position resumed into a fresh node.",
        note="Trusted: Lean kernel + standard axioms; virtual scheduler as the lens on the real threads; source states assumed truthy (a falsy source state is never stored by `_populate_queue`, documented).",
        ref="DESIGN.md §7 C06",
    ),
    "C08": dict(
        technique="Lean 4 proof: invariant by induction over every history of a reference-level heap model (TDV.Alias: objects at addresses, one live bookkeeping object per component, policy = copy out / copy in / in-place update) - no held state dict ever changes under a safe policy, and the criterion is exact - plus value-level theorems (state_dict transparent, load idempotent, exact resume); tied to the code by identity-level differential runs of the real weighted sampler, Unbatcher, Prefetcher, ParallelMapper and single-process StatefulDataLoader against the model, and a byte-level immutability oracle on the real objects",
        text="Reference level (Props/C08.lean): TDV.Alias.immutable_of_safe - for every policy with Safe = (not inPlace) or (copyIn and copyOut), every initial content and EVERY history of live updates (in place or rebinding), state_dict() calls, loads of any held dict (the same one repeatedly) and user-built dicts, each dict the user holds still has the content it had when handed over; unsafe_mutates - every other policy has a concrete mutating history (so an unsafe site is a violation, and the history is the replay); immutable_iff_safe - the equivalence; load_same_continuation - in every reachable state a load continues from the content at hand-over; get_transparent / get_returns_content - state_dict() moves neither the live object nor its content under every policy. Value level: TDV.Node.built_lawful L1, TDV.Loader.get_transparent, load_idempotent, TDV.Weighted.node_resume_exact, TDV.Incr.lossless_state. Tie (K-D leg alias): random histories on the real objects; after every operation object identities (`is`) and canonical contents are observed, each update is mapped to `rebind`/`step`, the site's policy is inferred from the observations (a rewrite to another safe policy is no alarm), the model replays the history and live content, alias bits, held contents and the intact flag are compared step by step; an unsafe inferred policy triggers the history of unsafe_mutates on the real object. Oracle: every returned dict is pickled at creation and deep-compared after later iteration of its producer, after loading it, after iterating the loaded object and after a second load, for StatefulDataLoader configurations (virtual workers) and nodes pipelines (bare and behind a Loader).",
        note="Trusted: Lean kernel + standard axioms; the heap model abstracts ONE mutable bookkeeping object per component (sites: MultiNodeWeightedSampler._datasets_exhausted, Unbatcher._cached_state_dict, _SingleThreadedMapper/_ParallelMapperIter._snapshot, the user dataset's live state behind a single-process StatefulDataLoader); contents are opaque codes fed from the real run. Multi-process StatefulDataLoader snapshots (_worker_snapshots, incremental state) and Loader are outside the heap model: for them aliasing is decided by the byte-wise oracle only (exploration). The oracle found and now guards two repaired defects (weighted sampler kept the loaded map; single-process state_dict aliased dataset state); both are also refuted policies of the model.",
        ref="DESIGN.md §7 C08, §11.8",
    ),
    "C09": dict(
        technique="Lean 4 proof on the protocol model with kill actions (safety of yields, detection enabledness) + fault enumeration of virtual SIGKILLs at every switch point of the real worker loop",
        text="TDV.MP.kill_safe(_map), kill_detected: with any number of worker deaths the yields stay a prefix of the reference and stop is never returned while a task of a dead unretired worker is outstanding; a consumer waiting on a dead worker's task has the liveness-poll action enabled, which raises. Oracle: kill worker w at its n-th switch point (start-up, idle, after get, mid-fetch, before/after put): outcome is prefix+RuntimeError or a complete epoch, never hang/early stop/wrong data; a checkpoint taken before the death resumes correctly.",
        note="Partial: SIGCHLD-driven detection, pipe corruption by a kill mid-write and real latency are OS behaviour outside the model and the virtual scheduler (bounded time is a bounded number of poll steps in virtual time).",
        ref="DESIGN.md §7 C09",
    ),
    "C10": dict(
        technique="Lean 4 proof: error position theorems for the single-process iterator and the multi-process protocol (with the refuted full statement for snapshot intervals > 1) + correspondence + catch-and-continue oracle",
        text="TDV.SP.error_position_map/_iter_*, TDV.MP.error_position (full strength: every interval, every set of failing fetches, every schedule - after the repair of the snapshot trigger), error_position_map, error_position_prefix_iter, take_snapshot_assertion_holds_map, TDV.MPU.error_position_iter, take_snapshot_assertion_holds_iter; TDV.MPR.*_err (checkpoints with failing fetches: snapshot_sound_map_err full, resume/chain partial with the full statements refuted on witnesses); TDV.MPH.handshake_drains / workers_survive / error_iff_failing_start / next_epoch_fresh (persistent-worker resume handshake with failing epoch starts, every interleaving; the pre-fix protocol refuted). Oracle: failing items / collate / worker_init_fn (also after a loaded state) / state_dict() raising / dataset __iter__ raising at the start of a later epoch with persistent workers / in_order=False (multisets), under all worker counts, snapshot intervals and schedules; expected sequence derived from the documentation.",
        note="Trusted: Lean kernel + standard axioms; generator-based iterable datasets die on their first exception (Python semantics) and are excluded from the reference.",
        ref="DESIGN.md §7 C10",
    ),
    "C11": dict(
        technique="Lean 4 proof: progress + variant (termination of next() under fairness) and error-after-prefix for the Prefetcher protocol; for ParallelMapper the full progress statement is refuted on two stuck states and proved outside them + trace validation + hang detection in virtual time",
        text="TDV.PF.progress, variant, error_after_prefix, terminal_surfaced, next_after_end_prompt; TDV.PM.progress at full strength after the two repaired hangs (next() after a source error; a dead worker), with early_stop_sound, runtime_error_sound, next_after_source_error_prompt, worker_death_detected. Oracle: N extra next() calls after a failure or the end, never exceeding the virtual-time budget except the known findings.",
        note="Partial: real wall-clock latency is not modelled; a hang is an exactly stuck or budget-exceeding state in virtual time.",
        ref="DESIGN.md §7 C11",
    ),
    "C12": dict(
        technique="Lean 4 proof: semaphore accounting invariant (permits + held + taken-not-released = max) over every interleaving; single-driver refuted when timed joins give up, proved otherwise + trace validation + probes at every scheduler switch point",
        text="TDV.PF.readahead_bound, held_le, release_never_overflows, single_driver_partial with two_drivers_witness / single_driver_statement_false (known finding), PM.readahead_bound, and the generation layer of ParallelMapper (TDV.PM.single_driver_partial(_weak), old_generation_silent, old_cannot_deliver_to_new). Oracle: instrumented sources (pull count, concurrent entries) probed at every switch point, slow sources in virtual time across reset().",
        note="Trusted: Lean kernel + standard axioms; pin_memory nodes are not modelled.",
        ref="DESIGN.md §7 C12",
    ),
    "C16": dict(
        technique="decision-logic theorems of the iterator constructors (Lean) + exhaustive pair enumeration on the real loader",
        text="All 20 ordered (saving, loading) num_workers pairs in 0..4 at several interruption points and all dataset kinds: a mismatching state is rejected before any data, {} is a no-op, no virtual worker survives the rejection, and a valid state loaded afterwards works. The Lean side covers the protocol and constructor models used by C01/C03; the rejection itself is a finite decision table checked exhaustively on the real code.",
        note="Partial: the rejection is implemented with `assert` (disappears under python -O); worker clean-up after the rejected construction relies on CPython reference counting - checked on the virtual process table, not proved.",
        ref="DESIGN.md §7 C16",
    ),
    "C17": dict(
        technique="Lean 4 proof: release of the reader thread within a bounded number of its own steps after shutdown (rank function) for every history; virtual thread/process table after every history step on the real code",
        text="TDV.PF.released, stop_stable, reader_never_stuck, released_without_consumer (and PM counterpart). Oracle: histories of exhaustion / del / reset / load on nodes pipelines (old generation exits within 5 virtual seconds) and of full/partial epochs, abandon+collect, load, new loader on the StatefulDataLoader with persistent and non-persistent workers (no accumulation, persistent workers reused).",
        note="Partial: real OS thread/process exit and queued-item memory are runtime facts outside the model; virtual tables stand for threading.enumerate() / active_children().",
        ref="DESIGN.md §7 C17",
    ),
    "C02": dict(
        technique="Lean 4 proof: every nodes combinator preserves `Lawful` (bisimulation congruence per operator; induction over the pipeline), Loader.resume_exact on top + differential correspondence of real pipelines against the model",
        text="TDV.Node.*_lawful / built_lawful: for every pipeline built from the operator set, state_dict is transparent and loading the state taken at any reachable point into any (also freshly built) pipeline is bisimilar to continuing - hence equal items for the rest of the epoch, later epochs and further checkpoint/resume chains, for every source length, batch size, snapshot_frequency (0 included) and item value (None included). Unbatcher / Prefetcher / ParallelMapper (sequential abstraction justified by the PF/PM protocol theorems) are proved for pipelines that never raise; the unrestricted statements are refuted in Lean on two pipelines whose checkpoint is taken after an exception (outside the property: it quantifies over checkpoints after k items). TDV.Loader.resume_exact lifts it through Loader/LoaderIterator. Tie: random pipelines x op lists through the real operators and the model driver on every run; oracle: every k of every epoch, chains, on the real operators (threads under the virtual scheduler).",
        note="Trusted: Lean kernel + standard axioms; user iterables/samplers/map functions are parameters with stated laws (StLaws); the sequential abstraction `buffered` of the threaded operators is tied to the thread protocol by the PF/PM models (C06); correspondence is testing.",
        ref="DESIGN.md §7 C02",
    ),
    "C04": dict(
        technique="Lean 4 proof: denotational lemmas per operator (induction over the source epoch) and delivered-prefix/completeness invariants of the thread protocols + differential correspondence and a reference evaluator on the real pipelines",
        text="TDV.Node.*_denote: mapper = map f, batcher = Ref.chunk (both drop_last), unbatcher = flatten, filter = List.filter, buffered = id, prebatch = id, wrappers = wrapped order, epoch_complete, for all source lists and parameters. Thread interleavings: PF/PM delivered_prefix / complete / unordered_perm over every action sequence of the protocol models, tied to the real threads by trace validation under the virtual scheduler.",
        note="Trusted: Lean kernel + standard axioms; map/filter functions are parameters; the virtual scheduler is the lens on the real threads; correspondence is testing.",
        ref="DESIGN.md §7 C04",
    ),
    "C07": dict(
        technique="Lean 4 proof (TDV.Incr.lossless, unflatten_flatten by induction over values and histories) + differential correspondence of the real _IncrementalState pair against the model",
        text="Theorems over all well-formed state values and all finite report histories: flatten/unflatten round trip, one-step and whole-history losslessness of delta transfer (tombstones, leaf<->dict changes). The model is tied to incremental_state.py on every run by a differential run over generated histories (incl. in-place mutation and delayed serialisation), and the property is evaluated directly on the real classes and on StatefulDataLoader checkpoints.",
        note="Trusted: Lean kernel + {propext, Classical.choice, Quot.sound}; leaf equality as Python ==; pickle round trip stands for the queue transport; correspondence is testing (generator-bounded). Integration through the loader uses virtual worker processes (harness/vsched.py).",
        ref="DESIGN.md §7 C07",
    ),
    "C13": dict(
        technique="Lean 4 proof: refinement of the flag-based Loader / StatefulDataLoader facades to a list-based reference for every API history (simulation relation, induction over op lists) + differential correspondence of both real facades against the model",
        text="TDV.Loader.refines_ref / TDV.SDLApi.refines_ref: for every Lawful root, every restart/persistent setting and every finite history over {iter, next, state_dict, load_state_dict(any earlier state)} the model's observations equal the reference's (with the reference's documented open choice set to the code's); resume_exact, get_transparent_partial, load_idempotent, epoch_counter. The strict readings of the property text are kept as *_statement with decided negation witnesses (two known findings, replayed on the real code; a third was repaired and is a regression witness). Tie: random API histories through the real Loader/SDL and the Lean model on every run.",
        note="Trusted: Lean kernel + standard axioms; the root node / the SDL iterator are abstract parameters (their exactness is C02 / C01); correspondence is testing. Multi-worker SDL histories run on virtual worker processes.",
        ref="DESIGN.md §7 C13",
    ),
    "C14": dict(
        technique="Lean 4 proof over all source lengths and all choice streams (induction over the sampling loop) + differential correspondence against the real MultiNodeWeightedSampler fed with the independently reproduced multinomial stream",
        text="TDV.Weighted: per_source_order, all_exhausted_exact, first_exhausted_exact, cycle_until_partial / cycle_forever_partial (non-empty sources; full statements refuted on the empty-source witness = known finding), fair_terminates, resume_choices, node_resume_exact, reset_none_epoch. Tie: real node vs model on generated op scripts with the choice stream rebuilt from the documented (seed, rank, world_size, epoch) recipe.",
        note="Trusted: Lean kernel + standard axioms; torch.multinomial / Generator are an oracle stream (not modelled); source nodes assumed exact (C02).",
        ref="DESIGN.md §7 C14",
    ),
    "C15": dict(
        technique="Lean 4 proof over all sizes and interruption points (abstract generator; induction over chunk / permutation boundaries) + differential correspondence against the real sampler classes and torch's samplers",
        text="TDV.Sampler: random_epoch_perm, random_with_replacement_len, random_resume_exact/_remaining, random_next_epoch_unaffected, batch_eq_chunk, batch_resume_*, dist_len/get/partition, dist_resume_exact, dist_following_epoch for every n, num_samples, batch size, replica count, rank and position. Tie: op scripts on the real classes vs the model with recorded torch draws; index lists compared with torch.utils.data samplers.",
        note="Trusted: Lean kernel + standard axioms; torch RNG is an abstract generator (draws replayed from the real torch stream); correspondence is testing.",
        ref="DESIGN.md §7 C15",
    ),
}

NOT_YET = "check not built yet (work in progress; see DESIGN.md section 7)"


def main():
    props = [json.loads(l)["id"] for l in open(os.path.join(HERE, "properties.jsonl"))]
    checks, na = [], []
    for p in props:
        c = CHECKS.get(p)
        if c is None:
            na.append({"property_id": p, "reason": NOT_YET})
            continue
        checks.append({
            "property_id": p,
            "quick_cmd": f"{PY} -m harness.check {p} --tier quick",
            "thorough_cmd": f"{PY} -m harness.check {p} --tier thorough",
            "evidence_file": f"evidence/{p}.json",
            "replay_cmd_template": f"{PY} -m harness.check {p} --replay {{path}}",
            "engine": "lean4-models+correspondence",
            "level_claimed": {"category": "proof", "text": c["text"], "design_ref": c["ref"]},
            "level_note": c["note"],
            "technique": c["technique"],
        })
    src_commits = []
    try:
        import subprocess
        out = subprocess.run(["git", "-C", "/repo", "log", "--format=%h %s", "4b7d09e..HEAD"], capture_output=True, text=True).stdout
        src_commits = [l.split()[0] for l in out.strip().split("\n") if l.strip()]
    except Exception:
        pass
    m = {
        "version": 1,
        "setup_cmd": "cd lean/TorchDataVerif && lake build",
        "hooks": {
            "guard": "TORCHDATA_VERIF",
            "enable": "no hooks: nothing in /repo is guarded; the harness imports torchdata from /repo's working tree and substitutes virtual threading/queue/time/multiprocessing objects from outside (harness/vsched.py)",
            "baseline_off_cmd": "cd /repo && /venv/bin/python -m pytest -ra -q -p no:cacheprovider --timeout=900 --continue-on-collection-errors",
            "source_commits": src_commits,
            "add_only": True,
        },
        "engines": [{
            "name": "lean4-models+correspondence",
            "path": "lean/TorchDataVerif (models, proofs, property theorems), harness/ (correspondence legs, property oracles, virtual scheduler)",
            "serves_properties": [c["property_id"] for c in checks],
            "kind_free_text": "Lean 4 theorems over executable models; differential / trace-validation correspondence against the real code on every run; property oracle on the real code for failing-input search",
        }],
        "checks": checks,
        "notes": "source_commits are unguarded `fix:` repairs of genuine defects (see known_findings.txt and DESIGN.md §8); there are no hook commits.",
        "not_applicable": na,
    }
    with open(os.path.join(HERE, "MANIFEST.json"), "w") as f:
        json.dump(m, f, indent=1)
    print(f"{len(checks)} checks, {len(na)} not claimed")


if __name__ == "__main__":
    main()
