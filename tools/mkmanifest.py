#!/usr/bin/env python3
"""Regenerates /verif/MANIFEST.json from the table below (keeps it valid and consistent)."""
import json
import os

HERE = os.path.dirname(os.path.dirname(os.path.abspath(__file__)))
PY = "/venv/bin/python"

# property -> (claimed?, technique, level text, level note, design ref)
CHECKS = {
    "C02": dict(
        technique="Lean 4 proof: every nodes combinator preserves `Lawful` (bisimulation congruence per operator; induction over the pipeline), Loader.resume_exact on top + differential correspondence of real pipelines against the model",
        text="TDV.Node.*_lawful / built_lawful: for every pipeline built from the operator set, state_dict is transparent and loading the state taken at any reachable point into any (also freshly built) pipeline is bisimilar to continuing - hence equal items for the rest of the epoch, later epochs and further checkpoint/resume chains, for every source length, batch size, snapshot_frequency (0 included) and item value (None included). Unbatcher / Prefetcher / ParallelMapper (sequential abstraction justified by the PF/PM protocol theorems) are proved for pipelines that never raise; the unrestricted statements are refuted in Lean on two pipelines whose checkpoint is taken after an exception (outside the property: it quantifies over checkpoints after k items). TDV.Loader.resume_exact lifts it through Loader/LoaderIterator. Tie: random pipelines x op lists through the real operators and the model driver on every run; oracle: every k of every epoch, chains, on the real operators (threads under the virtual scheduler).",
        note="Trusted: Lean kernel + standard axioms; user iterables/samplers/map functions are parameters with stated laws (StLaws); the sequential abstraction `buffered` of the threaded operators is tied to the thread protocol by the PF/PM models (C06); correspondence is testing.",
        ref="DESIGN.md §7 C02",
    ),
    "C04": dict(
        technique="Lean 4 proof: denotational lemmas per operator (induction over the source epoch) and delivered-prefix/completeness invariants of the thread protocols + differential correspondence and a reference evaluator on the real pipelines",
        text="TDV.Node.*_denote: mapper = map f, batcher = Ref.chunk (both drop_last), unbatcher = flatten, filter = List.filter, buffered = id, prebatch = id, wrappers = wrapped order, epoch_complete, for all source lists and parameters. Thread interleavings: PF/PM delivered_prefix / complete / unordered_perm over every action sequence of the protocol models, tied to the real threads by trace validation under the virtual scheduler.",
        note="Trusted: Lean kernel + standard axioms; map/filter functions are parameters; the virtual scheduler is the lens on the real threads; correspondence is testing.",
        ref="DESIGN.md §7 C04",
    ),
    "C07": dict(
        technique="Lean 4 proof (TDV.Incr.lossless, unflatten_flatten by induction over values and histories) + differential correspondence of the real _IncrementalState pair against the model",
        text="Theorems over all well-formed state values and all finite report histories: flatten/unflatten round trip, one-step and whole-history losslessness of delta transfer (tombstones, leaf<->dict changes). The model is tied to incremental_state.py on every run by a differential run over generated histories (incl. in-place mutation and delayed serialisation), and the property is evaluated directly on the real classes and on StatefulDataLoader checkpoints.",
        note="Trusted: Lean kernel + {propext, Classical.choice, Quot.sound}; leaf equality as Python ==; pickle round trip stands for the queue transport; correspondence is testing (generator-bounded). Integration through the loader uses virtual worker processes (harness/vsched.py).",
        ref="DESIGN.md §7 C07",
    ),
    "C13": dict(
        technique="Lean 4 proof: refinement of the flag-based Loader / StatefulDataLoader facades to a list-based reference for every API history (simulation relation, induction over op lists) + differential correspondence of both real facades against the model",
        text="TDV.Loader.refines_ref / TDV.SDLApi.refines_ref: for every Lawful root, every restart/persistent setting and every finite history over {iter, next, state_dict, load_state_dict(any earlier state)} the model's observations equal the reference's (with the reference's documented open choice set to the code's); resume_exact, get_transparent_partial, load_idempotent, epoch_counter. The strict readings of the property text are kept as *_statement with decided negation witnesses (three known findings, replayed on the real code). Tie: random API histories through the real Loader/SDL and the Lean model on every run.",
        note="Trusted: Lean kernel + standard axioms; the root node / the SDL iterator are abstract parameters (their exactness is C02 / C01); correspondence is testing. Multi-worker SDL histories run on virtual worker processes.",
        ref="DESIGN.md §7 C13",
    ),
    "C14": dict(
        technique="Lean 4 proof over all source lengths and all choice streams (induction over the sampling loop) + differential correspondence against the real MultiNodeWeightedSampler fed with the independently reproduced multinomial stream",
        text="TDV.Weighted: per_source_order, all_exhausted_exact, first_exhausted_exact, cycle_until_partial / cycle_forever_partial (non-empty sources; full statements refuted on the empty-source witness = known finding), fair_terminates, resume_choices, node_resume_exact, reset_none_epoch. Tie: real node vs model on generated op scripts with the choice stream rebuilt from the documented (seed, rank, world_size, epoch) recipe.",
        note="Trusted: Lean kernel + standard axioms; torch.multinomial / Generator are an oracle stream (not modelled); source nodes assumed exact (C02).",
        ref="DESIGN.md §7 C14",
    ),
    "C15": dict(
        technique="Lean 4 proof over all sizes and interruption points (abstract generator; induction over chunk / permutation boundaries) + differential correspondence against the real sampler classes and torch's samplers",
        text="TDV.Sampler: random_epoch_perm, random_with_replacement_len, random_resume_exact/_remaining, random_next_epoch_unaffected, batch_eq_chunk, batch_resume_*, dist_len/get/partition, dist_resume_exact, dist_following_epoch for every n, num_samples, batch size, replica count, rank and position. Tie: op scripts on the real classes vs the model with recorded torch draws; index lists compared with torch.utils.data samplers.",
        note="Trusted: Lean kernel + standard axioms; torch RNG is an abstract generator (draws replayed from the real torch stream); correspondence is testing.",
        ref="DESIGN.md §7 C15",
    ),
}

NOT_YET = "check not built yet (work in progress; see DESIGN.md section 7)"


def main():
    props = [json.loads(l)["id"] for l in open(os.path.join(HERE, "properties.jsonl"))]
    checks, na = [], []
    for p in props:
        c = CHECKS.get(p)
        if c is None:
            na.append({"property_id": p, "reason": NOT_YET})
            continue
        checks.append({
            "property_id": p,
            "quick_cmd": f"{PY} -m harness.check {p} --tier quick",
            "thorough_cmd": f"{PY} -m harness.check {p} --tier thorough",
            "evidence_file": f"evidence/{p}.json",
            "replay_cmd_template": f"{PY} -m harness.check {p} --replay {{path}}",
            "engine": "lean4-models+correspondence",
            "level_claimed": {"category": "proof", "text": c["text"], "design_ref": c["ref"]},
            "level_note": c["note"],
            "technique": c["technique"],
        })
    src_commits = []
    try:
        import subprocess
        out = subprocess.run(["git", "-C", "/repo", "log", "--format=%h %s", "4b7d09e..HEAD"], capture_output=True, text=True).stdout
        src_commits = [l.split()[0] for l in out.strip().split("\n") if l.strip()]
    except Exception:
        pass
    m = {
        "version": 1,
        "setup_cmd": "cd lean/TorchDataVerif && lake build",
        "hooks": {
            "guard": "TORCHDATA_VERIF",
            "enable": "no hooks: nothing in /repo is guarded; the harness imports torchdata from /repo's working tree and substitutes virtual threading/queue/time/multiprocessing objects from outside (harness/vsched.py)",
            "baseline_off_cmd": "cd /repo && /venv/bin/python -m pytest -ra -q -p no:cacheprovider --timeout=900 --continue-on-collection-errors",
            "source_commits": src_commits,
            "add_only": True,
        },
        "engines": [{
            "name": "lean4-models+correspondence",
            "path": "lean/TorchDataVerif (models, proofs, property theorems), harness/ (correspondence legs, property oracles, virtual scheduler)",
            "serves_properties": [c["property_id"] for c in checks],
            "kind_free_text": "Lean 4 theorems over executable models; differential / trace-validation correspondence against the real code on every run; property oracle on the real code for failing-input search",
        }],
        "checks": checks,
        "notes": "source_commits are unguarded `fix:` repairs of genuine defects (see known_findings.txt and DESIGN.md §8); there are no hook commits.",
        "not_applicable": na,
    }
    with open(os.path.join(HERE, "MANIFEST.json"), "w") as f:
        json.dump(m, f, indent=1)
    print(f"{len(checks)} checks, {len(na)} not claimed")


if __name__ == "__main__":
    main()
