#!/bin/bash
# usage: tools/confirm_queue.sh "<id> <dir> <letter>" ...   runs keep_mutant for each, at most 6 suites at a time
for spec in "$@"; do
  set -- $spec
  while [ $(pgrep -fc "pytest -q -p no:cacheprovider --timeout=900 --continue-on-collection-errors -x") -ge 5 ]; do sleep 30; done
  /verif/tools/keep_mutant.sh $1 $2 $3
  sleep 5
done
